#!/bin/sh
# Builds the dsim framework offline from files on disk: the facade re-exports,
# bin/simgen and bin/check. The worker is built by bin/check on every run, with
# -overlay, against the current working tree of /repo.
set -e
cd "$(dirname "$0")"
export GOFLAGS=-mod=mod GOPROXY=off GOSUMDB=off GOTOOLCHAIN=local
REPO="${VERIF_REPO:-/repo}"
[ -f go.sum ] || cp "$REPO/go.sum" go.sum
mkdir -p bin evidence replays
go run ./cmd/facadegen sim
go build -o bin/simgen ./cmd/simgen
go build -o bin/check ./cmd/check
# warm the build cache for the worker's dependencies (not a verdict; failures surface in the checks)
go build ./sim/... ./harness/... >/dev/null 2>&1 || true
# self-tests of the simulator's own models (mutex, semaphore, wait group, errgroup, disk faults,
# symbolic links, simulated processes, deadlock detection)
go test -count=1 ./sim/kern/ ./sim/simrt/ ./sim/simtime/ || echo "WARNING: kernel self-tests failed"
echo "setup ok"
