package main

// Per-property configuration of the driver. The workloads, oracles and
// reference models live in /verif/harness (prop_*.go).
var props = map[string]*propCfg{
	"C18": {
		ID: "C18", Level: "exploration", QuickSecs: 45, ThoroughSecs: 600, HangIsVerdict: true,
		Lanes: []lane{{Variant: "", Share: 1}},
		Rule: "one evaluation = one seeded needs graph (1-8 jobs; self loops, duplicate entries, mixed-case ids, dangling references, disjoint cycles, cycles sharing nodes, tails into cycles; random definition and needs order) linted once by the real rule under a seeded iteration order of the rule's node map, its resolve loop and the job visiting order; distinct = distinct (workflow text, installed map-order modes); non-trivial = the graph has >= 2 jobs and at least one instrumented map-range site iterated >= 2 keys in a non-identity order",
		Assumptions: []string{
			"reference model: lower-cased vertex ids, de-duplicated resolved edges, DFS colouring for 'has a cycle'; graphs with case-insensitively duplicate job ids are not generated (the property does not say which definition wins)",
			"cycle reporting is only checked when every reference resolves (the property specifies it for that case only); a dangling reference written k times may be reported between 1 and k times",
			"graphs are sampled, not enumerated: the 'exhaustively up to 5 jobs' half of the quantifier is bounded enumeration and is not claimed",
		},
	},
}
