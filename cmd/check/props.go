package main

// Per-property configuration of the driver. The workloads, oracles and
// reference models live in /verif/harness (prop_*.go).
var props = map[string]*propCfg{
	"C18": {
		ID: "C18", Level: "exploration", QuickSecs: 45, ThoroughSecs: 600, HangIsVerdict: true,
		Lanes: []lane{{Variant: "", Share: 1}},
		Rule: "one evaluation = one seeded needs graph (1-8 jobs; self loops, duplicate entries, mixed-case ids, dangling references, disjoint cycles, cycles sharing nodes, tails into cycles; random definition and needs order) linted once by the real rule under a seeded iteration order of the rule's node map, its resolve loop and the job visiting order; distinct = distinct (workflow text, installed map-order modes); non-trivial = the graph has >= 2 jobs and at least one instrumented map-range site iterated >= 2 keys in a non-identity order",
		Assumptions: []string{
			"reference model: lower-cased vertex ids, de-duplicated resolved edges, DFS colouring for 'has a cycle'; graphs with case-insensitively duplicate job ids are not generated (the property does not say which definition wins)",
			"cycle reporting is only checked when every reference resolves (the property specifies it for that case only); a dangling reference written k times may be reported between 1 and k times",
			"graphs are sampled, not enumerated: the 'exhaustively up to 5 jobs' half of the quantifier is bounded enumeration and is not claimed",
		},
	},
	"C09": {
		ID: "C09", Level: "exploration", QuickSecs: 60, ThoroughSecs: 900,
		Lanes: []lane{{Variant: "", Share: 1}},
		Rule: "one evaluation = one workflow composed from 2-6 independently chosen job groups (each closed under needs; half mined as job blocks from /repo/testdata/{examples,ok,err} with yaml.v3, half from the hand-written fragment library incl. well-formed local actions and reusable workflows) in a random textual interleaving, linted once under a seeded iteration order at every instrumented map-range site (in particular the job visiting order), plus the canonical solo run of each group as reference, plus (half of the evaluations) a step-insertion check on one job; distinct = distinct (composed text, installed map-order modes); non-trivial = >= 2 jobs and at least one map-range site iterated >= 2 keys in a non-identity order",
		Assumptions: []string{
			"reference model: the job group linted alone with the same header and the jobs it needs (canonical schedule); diagnostics are compared per job as multisets of (relative line, column, kind, message) with positions echoed in messages shifted by the same offset",
			"job groups never reference defective or missing local actions / reusable workflows: 'callee defects are reported once per run' (C10) is specified behaviour that necessarily lands on whichever job is visited first",
			"header diagnostics are compared only when the header does not mention the jobs context",
			"composed texts that are not valid YAML (a mined block that does not survive re-composition) are counted as probes and skipped, never reported",
		},
	},
}
