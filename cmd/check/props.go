package main

// Per-property configuration of the driver. The workloads, oracles and
// reference models live in /verif/harness (prop_*.go).
var props = map[string]*propCfg{
	"C18": {
		ID: "C18", Level: "exploration", QuickSecs: 45, ThoroughSecs: 600, HangIsVerdict: true,
		Lanes: []lane{{Variant: "", Share: 10}, {Variant: "multi", Share: 4}, {Variant: "multi", Race: true, Share: 2}},
		Rule:  "one evaluation = one seeded needs graph (1-8 jobs; seven shapes: sparse, dense, DAG, ring with chords, tail into a cycle, two clusters, top-down with self loops; duplicate entries, mixed-case ids, dangling references, disjoint cycles, cycles sharing nodes; random definition and needs order; lane 'multi': 2-4 such graphs as the files of one LintFiles call under a seeded schedule, also on the -race build) linted once by the real rule under a seeded iteration order of the rule's node map, its resolve loop and the job visiting order; distinct = distinct (workflow text, installed map-order modes); non-trivial = the graph has >= 2 jobs and at least one instrumented map-range site iterated >= 2 keys in a non-identity order",
		Assumptions: []string{
			"reference model: lower-cased vertex ids, de-duplicated resolved edges, DFS colouring for 'has a cycle'; graphs with case-insensitively duplicate job ids are not generated (the property does not say which definition wins)",
			"cycle reporting is only checked when every reference resolves (the property specifies it for that case only); a dangling reference written k times may be reported between 1 and k times",
			"graphs are sampled, not enumerated: the 'exhaustively up to 5 jobs' half of the quantifier is bounded enumeration and is not claimed",
		},
	},
	"C09": {
		ID: "C09", Level: "exploration", QuickSecs: 60, ThoroughSecs: 900,
		Lanes: []lane{{Variant: "", Share: 1}},
		Rule:  "one evaluation = one workflow composed from 2-6 independently chosen job groups (each closed under needs; half mined as job blocks from /repo/testdata/{examples,ok,err} with yaml.v3, half from the hand-written fragment library incl. well-formed local actions and reusable workflows) in a random textual interleaving, linted once under a seeded iteration order at every instrumented map-range site (in particular the job visiting order), plus the canonical solo run of each group as reference, plus step-level checks on one job (insert an id-less step, delete an id-less step, swap two adjacent id-less steps; each in half of the evaluations); distinct = distinct (composed text, installed map-order modes); non-trivial = >= 2 jobs and at least one map-range site iterated >= 2 keys in a non-identity order",
		Assumptions: []string{
			"reference model: the job group linted alone with the same header and the jobs it needs (canonical schedule); diagnostics are compared per job as multisets of (relative line, column, kind, message) with positions echoed in messages shifted by the same offset",
			"job groups never reference defective or missing local actions / reusable workflows: 'callee defects are reported once per run' (C10) is specified behaviour that necessarily lands on whichever job is visited first",
			"header diagnostics are compared only when the header does not mention the jobs context",
			"composed texts that are not valid YAML (a mined block that does not survive re-composition) are counted as probes and skipped, never reported",
		},
	},
	"C02": {
		ID: "C02", Level: "exploration", QuickSecs: 75, ThoroughSecs: 1200,
		Lanes: []lane{{Variant: "", Share: 10}, {Variant: "single", Share: 4}, {Variant: "", Race: true, Share: 2}},
		Rule:  "one evaluation = one generated world (1-2 virtual repositories with configs, 1-3 workflows each composed from the fragment library biased to tie-makers - two or more diagnostics at one position, several candidates for 'the first' - plus corpus workflows/projects, defective callees, called workflows that are arguments themselves, files outside any repository; argument subset/order, cwd, path spelling, NumCPU, output mode) executed twice by the real Linter: the canonical run (identity map order, non-preemptive, zero latency) and a run under seeded map-iteration orders at every instrumented site, a seeded goroutine schedule and, per evaluation, another NumCPU, another GOMAXPROCS (1..64, also above NumCPU), a second execution in the same process or a second call on the same Linter instance; a race lane runs the same worlds on the -race build; 64 (thorough: 192) late evaluations are re-executed in fresh processes (fresh-versus-warm); distinct = distinct (world hash, interleaving signature = hash of the ordered kernel event trace, installed map modes, variant kind); non-trivial = at some scheduling point >= 2 tasks were runnable, or a map-range site iterated >= 2 keys in a non-identity order, or the CPU/repeat variant was used",
		Assumptions: []string{
			"oracle is purely differential (stdout bytes, exit status, every field of every []*Error, fatal or not); fatal error texts on stderr are not compared (the first of several concurrent fatal errors is legitimately schedule-dependent)",
			"runs that crash are left to C01; C02 compares runs that complete",
		},
	},
	"C10": {
		ID: "C10", Level: "exploration", QuickSecs: 90, ThoroughSecs: 1500,
		Lanes: []lane{{Variant: "", Share: 5}, {Variant: "defective", Share: 4}, {Variant: "faults", Share: 2}, {Variant: "cache", Share: 2}, {Variant: "", Race: true, Share: 2}, {Variant: "defective", Race: true, Share: 1}},
		Rule:  "one evaluation = one generated world of 1-3 virtual repositories (siblings sharing a name prefix, a nested repository, files outside any repository; per-repository actionlint.yaml with different runner labels, config variables and paths-ignore entries; local actions and reusable workflows, some of them arguments themselves; corpus workflows) (some workflow files are symbolic links into another directory or repository; a repository root that differs from another only in letter case) linted once as a multi-file run - in a fifth of the evaluations as the second call on one Linter instance - under a seeded goroutine schedule, seeded map orders and NumCPU in {1,2,3,4,8,16}, plus one canonical solo run per argument as reference, plus the attribution run; lane 'defective' adds defective/missing callees, lane 'faults' persistent read errors, lane 'cache' runs 2-4 simulated client tasks against the two caches and checks the recorded history with porcupine; race lanes run the same worlds on the -race build with the invisible baton; distinct = distinct (world hash, interleaving signature = hash of the ordered kernel event trace); non-trivial = at some scheduling point >= 2 tasks were runnable",
		Assumptions: []string{
			"reference for isolation: the same file linted alone by a fresh Linter on the canonical schedule (same disk, cwd and spelling); compared as ordered lists",
			"reference for attribution: nearest ancestor directory with a .github/workflows directory and a .git entry, checked through the public Projects API for every argument order",
			"defective lane: callee-defect messages (recognised by mentioning the callee: 'reusable workflow', 'action metadata', 'in \"...\" action', ...) must appear exactly once per run and repository; everything else as in isolation",
			"cache lane: a non-linearizable history is reported only for defective callees (observable as a defect reported twice or never); on well-formed callees it is counted as a probe; porcupine Unknown is inconclusive and never reported",
			"fingerprints follow built-in kinds and types declared in package actionlint; foreign opaque types (regexp, colour printers, writers) are represented by their type name",
			"race lane: GOMAXPROCS=4; sync.Pool-mediated happens-before edges inside fmt can hide a race (under-reporting) but never invent one; reports whose stacks contain no actionlint frame are ignored",
		},
	},
	"C15": {
		ID: "C15", Level: "exploration", QuickSecs: 60, ThoroughSecs: 900,
		Lanes: []lane{{Variant: "", Share: 7}, {Variant: "", Race: true, Share: 1}},
		Rule:  "one evaluation = one virtual repository (at /w/app, nested at /w/app/vendor/sub with or without an enclosing repository, or at /x/y/z/r; optional sibling sharing the name prefix) with 1-3 generated workflows, an actionlint.yaml with 0-3 paths entries (globs that match none/some/all files, and globs that only match when the path is wrongly taken relative to another directory) x 1-3 ignore regexps, 0-2 -ignore flags; executed through Command.Main twice: U = unfiltered from the repository root, F = filtered from a chosen cwd (root, parent, .github, .github/workflows, /, unrelated), spelling (relative, ./, absolute, with ..), mode (files, single file, no argument, failing getwd, stdin with -stdin-filename, repository config unreadable), output mode (json template, -oneline), under a seeded schedule; some workflow files are symbolic links to files outside the repository; a second repository with its own config can be part of the invocation; a race lane runs the same worlds on the -race build; distinct = distinct world hash (disk, cwd, arguments); non-trivial = U has diagnostics and (a filter removes something, or the cwd is not the root, or the spelling is not plain relative)",
		Assumptions: []string{
			"reference model: expected(F) = U minus diagnostics whose message matches a -ignore pattern or a pattern of a paths entry whose glob (doublestar) matches the file path relative to the root of the containing repository; exit 1 iff non-empty, 0 iff empty",
			"U is obtained from the same code with no -ignore flag and the paths section removed from the config: the oracle decides filtering and cwd/spelling independence, not what the unfiltered diagnostics are",
			"when getwd fails printed paths cannot be resolved; diagnostics are then compared modulo the directory part of the path",
		},
	},
	"C20": {
		ID: "C20", Level: "exploration", QuickSecs: 75, ThoroughSecs: 1200,
		Lanes: []lane{{Variant: "", Share: 6}, {Variant: "faults", Share: 6}, {Variant: "", Race: true, Share: 2}, {Variant: "faults", Race: true, Share: 2}},
		Rule:  "one evaluation = 1-6 generated workflow files x 1-3 jobs x 1-4 steps with shells chosen at step / job default / workflow default / runner default (windows labels) / none, custom shells, scripts with 0-3 placeholders (adjacent, at start/end, unterminated, '}}' inside a string, multi-line) and issue markers, both / one / no tool enabled or not installed, the tool given as an executable name or as a command line with arguments, NumCPU in {1,2,3,4,16} and GOMAXPROCS equal to or 2-3 times NumCPU; linted once by the real Linter with the real process.go protocol against simulated shellcheck/pyflakes whose latency (0, 1 ms, 10 ms, 1 s, 1 h of simulated time) and completion order are seeded choices; lane 'faults' additionally makes 1-2 invocations fail (cannot start: ENOENT/EACCES/EAGAIN, killed, killed after partial output, non-zero without output, exits before reading stdin, shellcheck prints non-JSON, shellcheck exits 0 printing nothing); distinct = distinct (world hash, interleaving signature = hash of the ordered kernel event trace incl. process start/exit events); non-trivial = >= 2 expected tool invocations and >= 2 tasks runnable at some scheduling point",
		Assumptions: []string{
			"the dialect given to shellcheck (--shell) must be the effective shell of the step; the whole diagnostics list must equal the canonical run's (zero latency, non-preemptive)",
			"reference model from the YAML via yaml.v3: effective shell = step shell > job defaults.run.shell > workflow defaults.run.shell > pwsh when a literal runs-on label is windows or windows-* > bash; shellcheck iff bash/sh or 'bash '/'sh ' prefix; pyflakes iff python or 'python ' prefix (no runner default); stdin = setup line + script with each ${{ ... }} replaced by as many underscores (an unterminated ${{ and the rest left as is) + newline for shellcheck, the sanitised script for pyflakes",
			"tool models derive their issues from markers in stdin, so an issue's line/column is wrong whenever the sanitised script has another length than the original; a diagnostic matches an issue when its message contains the code and line:column relative to the user's script",
			"invariants checked at every kernel step: running simulated processes <= NumCPU given to the code; at return of the lint call (result or error): no running process, no unfinished callback task, every started process waited for",
			"with an injected failure of a kind the property lists the call must return a fatal error; invocation and diagnostic exactness is then relaxed to 'nothing foreign, nothing twice'",
			"a script larger than the 64 KiB pipe buffer (stdin is written before the process is started) is modelled (the writer would block forever) but not generated",
		},
	},
	"C01": {
		ID: "C01", Level: "fault_enumeration", QuickSecs: 60, ThoroughSecs: 1200, HangIsVerdict: true,
		Lanes: []lane{{Variant: "", Share: 5}, {Variant: "tornenum", Share: 2}, {Variant: "", Race: true, Share: 1}},
		Rule:  "lane 'tornenum': one evaluation = one generated single-repository world and one of its channel files (workflow, action metadata, reusable workflow, actionlint.yaml) read back truncated at EVERY byte offset (thorough tier; every 16th offset from a seeded phase in the quick tier), one canonical run per offset. Other lanes: one evaluation = one generated world (1-2 virtual repositories from the fragment library, the repository's testdata workflows and testdata projects, incl. defective callees and files outside any repository) run through Command.Main in one of the entry modes (files, no argument = directory walk, stdin, -config-file) under a seeded schedule with 0-3 planned faults: content faults on a channel file (torn at an offset, zeroed range, duplicated block, swapped blocks, 1-8 flipped bits, rewritten between two reads; on the first, second or every read), read errors (EIO, EACCES, ENOENT, EISDIR), a fault on the n-th I/O operation whatever its path, stat / getwd / directory-listing errors, stdin read error at an offset and short reads; a third of the worlds have the shellcheck/pyflakes integrations enabled with working or broken installations (every invocation exits non-zero without output, cannot be started, is killed, prints garbage or nothing); distinct = distinct (world hash incl. fault plan, interleaving signature); non-trivial = at least one planned fault actually fired",
		Assumptions: []string{
			"SCOPE: this check decides only the part of C01 that faults reach. The property also quantifies over all byte strings on each input channel; that is input fuzzing, a different technique, and is not decided here: a tree can pass this check and still panic on a crafted input",
			"oracle: no panic in any task, no deadlock, termination within the step budget and the wall-clock watchdog (a hang is re-run alone for 60 s before it is reported), exit status in {0,1,3}, no panic text in the output; exit status 3 with a message is demanded only when a persistent read error makes an argument workflow file or the -config-file file unreadable, the workflows directory cannot be listed, or stdin fails",
		},
	},
}
