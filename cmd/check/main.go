// Command check is the driver of dsim: it regenerates the overlay from the
// current /repo working tree, builds the worker, fans out worker processes,
// aggregates their reports, minimises and confirms failures, applies the
// known-findings file, writes the evidence file and sets the exit status:
//
//	0  the property held on everything explored (KNOWN-FINDING lines allowed)
//	1  at least one `VIOLATION property=<id> replay=<path>` line was printed
//	2  harness / build / watchdog trouble (never a verdict)
package main

import (
	"bytes"
	"crypto/sha1"
	"encoding/json"
	"flag"
	"fmt"
	"os"
	"os/exec"
	"path/filepath"
	"runtime"
	"sort"
	"strconv"
	"strings"
	"sync"
	"time"
)

var (
	verifDir = "/verif"
	repoDir  = "/repo"
)

// lane is one configuration of a property's scenario that gets its own workers.
type lane struct {
	Variant string
	Race    bool
	Share   float64 // share of the wall-clock budget
	// EvalsQuick/EvalsThorough cap the evaluations per worker (0 = time budget only)
	EvalsQuick, EvalsThorough int
}

type propCfg struct {
	ID            string
	Level         string
	QuickSecs     float64
	ThoroughSecs  float64
	Lanes         []lane
	Rule          string
	Assumptions   []string
	Universes     map[string]int // finite input universes the scenario draws from uniformly (name -> size); the evidence says how much of each was reached
	HangIsVerdict bool // termination is part of the property: a confirmed hang is a violation
}

var common = []string{
	"the simulated sync / x-sync / os / os-exec / filepath / runtime / time models (verifsim/sim) are faithful to the real packages where actionlint depends on them",
	"interleavings are explored at synchronisation, disk, process and clock operations; finer interleavings matter only for data races, which the race lane covers",
	"third-party libraries (yaml.v3, doublestar, cron, go-shellwords, regexp, text/template) run natively; their internal map iteration is not controlled",
	"the input dimension is sampled from a generated workload family; a clean batch is evidence over those workloads, schedules and faults, not a proof over all workflows",
}

type workerReport struct {
	Prop       string            `json:"property"`
	Worker     int               `json:"worker"`
	Seed       uint64            `json:"seed"`
	Variant    string            `json:"variant"`
	RaceLane   bool              `json:"race_lane"`
	Gomaxprocs int               `json:"gomaxprocs"`
	Evals      int               `json:"evals"`
	Nontrivial int               `json:"nontrivial"`
	Runs       int               `json:"runs"`
	Steps      int               `json:"steps"`
	SimTimeNs  int64             `json:"sim_time_ns"`
	Sigs       []string          `json:"sigs"`
	Cover      []string          `json:"cover"`
	Faults     map[string]int    `json:"faults"`
	Probes     map[string]int    `json:"probes"`
	SiteRuns   map[string]int    `json:"site_runs"`
	Samples    []json.RawMessage `json:"samples"`
	Failures   []json.RawMessage `json:"failures"`
	Hang       json.RawMessage   `json:"hang"`
	WallS      float64           `json:"wall_s"`
	DetHash    string            `json:"det_hash"`
	Digests    [][2]uint64       `json:"digests"`
	RaceRep    []string          `json:"-"`
}

type failureHead struct {
	Prop    string `json:"property"`
	Eval    int    `json:"eval"`
	Variant string `json:"variant"`
	V       struct {
		Oracle  string `json:"oracle"`
		Class   string `json:"class"`
		Message string `json:"message"`
	} `json:"violation"`
	Choices []json.RawMessage `json:"choices"`
}

type replayHead struct {
	Prop    string   `json:"property"`
	Oracle  string   `json:"oracle"`
	Class   string   `json:"class"`
	Message string   `json:"message"`
	NonZero []string `json:"nonzero_choices"`
}

type knownFinding struct {
	Property string `json:"property"`
	Status   string `json:"status"` // known | fixed
	Oracle   string `json:"oracle"`
	Class    string `json:"class"`
	// Contains, when set, must all occur in the replay's message or in its list of non-canonical choices
	Contains []string `json:"contains,omitempty"`
	Commit   string   `json:"commit,omitempty"`
	What     string   `json:"what"`
}

// reproducesWithHistory re-executes evaluations 0..idx of one worker in a fresh process and
// reports whether evaluation idx fails with the given oracle and class again.
func reproducesWithHistory(id, workerBin, sitesPath, scratch string, seed uint64, w int, variant, tier string, idx int, oracle, class string, env []string) bool {
	out := filepath.Join(scratch, fmt.Sprintf("histfail-%d-%d.json", w, idx))
	cmd := exec.Command(workerBin, "-prop", id, "-sites", sitesPath, "-seed", strconv.FormatUint(seed, 10), "-worker", strconv.Itoa(w),
		"-start", "0", "-evals", strconv.Itoa(idx+1), "-variant", variant, "-tier", tier, "-out", out, "-maxfail", "1000000")
	cmd.Env = env
	cmd.Run()
	var r workerReport
	b, err := os.ReadFile(out)
	if err != nil || json.Unmarshal(b, &r) != nil {
		return false
	}
	for _, f := range r.Failures {
		var fh failureHead
		if json.Unmarshal(f, &fh) == nil && fh.Eval == idx && fh.V.Oracle == oracle && fh.V.Class == class {
			return true
		}
	}
	return false
}

func sortedKeysOf(m map[string]string) []string {
	ks := make([]string, 0, len(m))
	for k := range m {
		ks = append(ks, k)
	}
	sort.Strings(ks)
	return ks
}

// blockingUnsupported selects, from simgen's list of constructs it does not control, those
// on which a goroutine can block.
func blockingUnsupported(u []string) []string {
	var out []string
	for _, x := range u {
		if strings.Contains(x, "channel") || strings.Contains(x, "select") || strings.Contains(x, "sync.Cond") || strings.Contains(x, "sync.NewCond") {
			out = append(out, x)
		}
	}
	return out
}

// scratchDir is removed on every exit path, also the ones that give up (exit 2).
var scratchDir string

func die(code int, a ...any) {
	fmt.Fprintln(os.Stderr, append([]any{"check:"}, a...)...)
	if scratchDir != "" {
		os.RemoveAll(scratchDir)
	}
	os.Exit(code)
}

func goEnv() []string {
	env := os.Environ()
	env = append(env, "GOFLAGS=-mod=mod", "GOPROXY=off", "GOSUMDB=off", "GOTOOLCHAIN=local", "CGO_ENABLED=1")
	return env
}

func run(dir string, env []string, name string, args ...string) (string, error) {
	cmd := exec.Command(name, args...)
	cmd.Dir = dir
	cmd.Env = env
	var b bytes.Buffer
	cmd.Stdout = &b
	cmd.Stderr = &b
	err := cmd.Run()
	return b.String(), err
}

func main() {
	if len(os.Args) < 2 {
		die(2, "usage: check <property> [--tier quick|thorough] [--replay file] [--seed n] [--workers n] [--secs s]")
	}
	id := os.Args[1]
	fs := flag.NewFlagSet("check", flag.ExitOnError)
	tier := fs.String("tier", "", "quick | thorough (default: $VERIF_TIER or quick)")
	replay := fs.String("replay", "", "replay file")
	seedF := fs.String("seed", "", "seed (default: $VERIF_SEED or 1)")
	workers := fs.Int("workers", 0, "worker processes (default: number of CPUs)")
	secs := fs.Float64("secs", 0, "override the wall-clock exploration budget")
	keep := fs.Bool("keep", false, "keep the scratch directory")
	fs.Parse(os.Args[2:])
	if *tier == "" {
		*tier = os.Getenv("VERIF_TIER")
	}
	if *tier == "" {
		*tier = "quick"
	}
	if *tier != "quick" && *tier != "thorough" {
		die(2, "bad tier", *tier)
	}
	seedStr := *seedF
	if seedStr == "" {
		seedStr = os.Getenv("VERIF_SEED")
	}
	var seed uint64 = 1
	if seedStr != "" {
		v, err := strconv.ParseInt(seedStr, 10, 64)
		if err != nil {
			u, err2 := strconv.ParseUint(seedStr, 10, 64)
			if err2 != nil {
				die(2, "bad seed", seedStr)
			}
			v = int64(u)
		}
		seed = uint64(v)
	}
	// the framework directory is where this binary lives (<dir>/bin/check), so that a snapshot of
	// /verif builds and runs its own sources
	if exe, err := os.Executable(); err == nil {
		if d := filepath.Dir(filepath.Dir(exe)); fileExists(filepath.Join(d, "cmd", "worker", "main.go")) {
			verifDir = d
		}
	}
	if d := os.Getenv("VERIF_DIR"); d != "" {
		verifDir = d
	}
	if d := os.Getenv("VERIF_REPO"); d != "" {
		repoDir = d
	}
	outDir := verifDir
	if d := os.Getenv("VERIF_OUT"); d != "" {
		outDir = d // seeded-change runs: keep /verif/evidence and /verif/replays untouched
	}
	cfg, ok := props[id]
	if !ok {
		die(2, "unknown or unclaimed property", id)
	}
	if *workers <= 0 {
		*workers = runtime.NumCPU()
	}
	start := time.Now()
	fmt.Printf("VERIF_SEED=%d property=%s tier=%s workers=%d\n", int64(seed), id, *tier, *workers)

	scratch, err := os.MkdirTemp("", "dsim-"+id+"-")
	if err != nil {
		die(2, err)
	}
	if !*keep {
		scratchDir = scratch
		defer os.RemoveAll(scratch)
	}
	exit := func(code int) {
		if !*keep {
			os.RemoveAll(scratch)
		}
		os.Exit(code)
	}

	// 1. overlay from the current working tree of /repo
	gen := filepath.Join(scratch, "gen")
	// dependencies that read the file system themselves (doublestar's FilepathGlob / GlobWalk helpers)
	var depDirs []string
	if o, err := run(verifDir, goEnv(), "go", "list", "-m", "-f", "{{.Dir}}", "github.com/bmatcuk/doublestar/v4"); err == nil {
		if d := strings.TrimSpace(o); d != "" && !strings.Contains(d, "\n") {
			depDirs = append(depDirs, d)
		}
	}
	if out, err := run(repoDir, goEnv(), filepath.Join(verifDir, "bin", "simgen"), append([]string{repoDir, gen}, depDirs...)...); err != nil {
		fmt.Print(out)
		die(2, "simgen failed:", err)
	} else {
		fmt.Print(out)
	}
	sitesPath := filepath.Join(gen, "sites.json")
	var sites struct {
		Sites       []string          `json:"sites"`
		Native      []string          `json:"native"`
		Unsupported []string          `json:"unsupported"`
		GoStmts     int               `json:"go_stmts"`
		GoApprox    int               `json:"go_approx"`
		DepReplace  map[string]string `json:"dependency_replace"`
		DepFiles    []string          `json:"dependency_files"`
		Vars        int               `json:"package_vars"`
		TypeErrors  []string          `json:"type_errors"`
	}
	if b, err := os.ReadFile(sitesPath); err != nil || json.Unmarshal(b, &sites) != nil {
		die(2, "cannot read sites.json")
	}

	// 2. build the worker(s)
	needRace := false
	for _, l := range cfg.Lanes {
		if l.Race {
			needRace = true
		}
	}
	replayIsRace := false
	if *replay != "" {
		b, _ := os.ReadFile(*replay)
		replayIsRace = bytes.Contains(b, []byte(`"no-data-race"`))
		needRace = replayIsRace
	}
	// a repository other than /repo (VERIF_REPO, used for seeded-change runs on scratch copies):
	// build with a copy of go.mod whose replace directive points there
	modfile := ""
	if repoDir != "/repo" || len(sites.DepReplace) > 0 {
		b, err := os.ReadFile(filepath.Join(verifDir, "go.mod"))
		if err != nil {
			die(2, err)
		}
		modfile = filepath.Join(scratch, "go.mod")
		mod := strings.Replace(string(b), "=> /repo", "=> "+repoDir, 1)
		// dependencies that read the file system are built from simgen's rewritten copies
		for _, m := range sortedKeysOf(sites.DepReplace) {
			mod += fmt.Sprintf("\nreplace %s => %s\n", m, sites.DepReplace[m])
		}
		os.WriteFile(modfile, []byte(mod), 0o644)
		if sb, err := os.ReadFile(filepath.Join(verifDir, "go.sum")); err == nil {
			os.WriteFile(filepath.Join(scratch, "go.sum"), sb, 0o644)
		}
	}
	build := func(out string, race bool) error {
		args := []string{"build", "-overlay", filepath.Join(gen, "overlay.json"), "-tags", "verif", "-o", out}
		if modfile != "" {
			args = append(args, "-modfile="+modfile)
		}
		if race {
			args = append(args, "-race")
		}
		args = append(args, "./cmd/worker")
		o, err := run(verifDir, goEnv(), "go", args...)
		if err != nil {
			fmt.Print(o)
		}
		return err
	}
	workerBin := filepath.Join(scratch, "worker")
	raceBin := filepath.Join(scratch, "worker-race")
	var wg sync.WaitGroup
	var berr, rerr error
	wg.Add(1)
	go func() { defer wg.Done(); berr = build(workerBin, false) }()
	if needRace {
		wg.Add(1)
		go func() { defer wg.Done(); rerr = build(raceBin, true) }()
	}
	wg.Wait()
	if berr != nil || rerr != nil {
		die(2, "building the worker against the current /repo tree failed")
	}
	fmt.Printf("built worker in %.1fs (%d map sites instrumented, %d native)\n", time.Since(start).Seconds(), len(sites.Sites), len(sites.Native))

	workerEnv := func(gmp int) []string {
		return append(os.Environ(), "GOMAXPROCS="+strconv.Itoa(gmp), "GORACE=halt_on_error=0 exitcode=0 history_size=3")
	}

	// replay of a fresh-versus-warm finding: re-execute both and compare
	if *replay != "" {
		var hf struct {
			Oracle  string `json:"oracle"`
			Class   string `json:"class"`
			Variant string `json:"variant"`
			Seed    int64  `json:"seed"`
			Worker  int    `json:"worker"`
			Index   int    `json:"index"`
			Tier    string `json:"tier"`
		}
		var hk struct {
			Kind string `json:"kind"`
		}
		if b, err := os.ReadFile(*replay); err == nil && json.Unmarshal(b, &hk) == nil && hk.Kind == "failure-with-history" {
			json.Unmarshal(b, &hf)
			if reproducesWithHistory(id, workerBin, sitesPath, scratch, uint64(hf.Seed), hf.Worker, hf.Variant, hf.Tier, hf.Index, hf.Oracle, hf.Class, workerEnv(1)) {
				fmt.Printf("REPLAY: evaluation %d fails (%s / %s) after the %d evaluations before it in one process\n", hf.Index, hf.Oracle, hf.Class, hf.Index)
				fmt.Printf("VIOLATION property=%s replay=%s\n", id, *replay)
				exit(1)
			}
			fmt.Println("REPLAY: no violation (the property held on this replay)")
			exit(0)
		}
		if b, err := os.ReadFile(*replay); err == nil && json.Unmarshal(b, &hf) == nil && hf.Oracle == "fresh-vs-warm" {
			run1 := func(start, evals, every int, tag string) (uint64, bool) {
				out := filepath.Join(scratch, "hist-replay-"+tag+".json")
				cmd := exec.Command(workerBin, "-prop", id, "-sites", sitesPath, "-seed", strconv.FormatUint(uint64(hf.Seed), 10), "-worker", strconv.Itoa(hf.Worker),
					"-start", strconv.Itoa(start), "-evals", strconv.Itoa(evals), "-digestevery", strconv.Itoa(every), "-variant", hf.Variant, "-tier", hf.Tier, "-out", out, "-maxfail", "1000000")
				cmd.Env = workerEnv(1)
				cmd.Run()
				var r workerReport
				if b, err := os.ReadFile(out); err == nil && json.Unmarshal(b, &r) == nil {
					for _, d := range r.Digests {
						if int(d[0]) == hf.Index {
							return d[1], true
						}
					}
				}
				return 0, false
			}
			warm, ok1 := run1(0, hf.Index+1, hf.Index, "warm")
			fresh, ok2 := run1(hf.Index, 1, 1, "fresh")
			if !ok1 || !ok2 {
				die(2, "could not re-execute the evaluations of the replay")
			}
			fmt.Printf("REPLAY: evaluation %d after %d earlier evaluations in one process: digest %x; as the first evaluation of a fresh process: digest %x\n", hf.Index, hf.Index, warm, fresh)
			if warm != fresh {
				fmt.Printf("VIOLATION property=%s replay=%s\n", id, *replay)
				exit(1)
			}
			fmt.Println("REPLAY: no violation (the property held on this replay)")
			exit(0)
		}
	}
	// replay mode
	if *replay != "" {
		cmd := exec.Command(workerBin, "-prop", id, "-sites", sitesPath, "-replay", *replay, "-tier", *tier)
		cmd.Env = workerEnv(1)
		if replayIsRace {
			rl := filepath.Join(scratch, "race-replay")
			cmd = exec.Command(raceBin, "-prop", id, "-sites", sitesPath, "-replay", *replay, "-tier", *tier, "-racelog", rl)
			cmd.Env = append(os.Environ(), "GOMAXPROCS=4", "GORACE=log_path="+rl+" halt_on_error=0 exitcode=0 history_size=3")
		}
		cmd.Stdout, cmd.Stderr = os.Stdout, os.Stderr
		err := cmd.Run()
		code := 0
		if ee, ok := err.(*exec.ExitError); ok {
			code = ee.ExitCode()
		} else if err != nil {
			die(2, err)
		}
		if code == 1 {
			fmt.Printf("VIOLATION property=%s replay=%s\n", id, *replay)
		}
		exit(code)
	}

	budget := cfg.QuickSecs
	if *tier == "thorough" {
		budget = cfg.ThoroughSecs
	}
	if *secs > 0 {
		budget = *secs
	}

	// 3. determinism self-test: the same seeds in separate processes under different GOMAXPROCS
	detSeeds := 32
	detEvals := 24
	if *tier == "thorough" {
		detSeeds, detEvals = 128, 48
	}
	detMismatch := 0
	detRuns := 0
	{
		type job struct {
			lane lane
			w    int
			gmp  int
		}
		var jobs []job
		per := detSeeds / max(1, len(cfg.Lanes))
		if per < 2 {
			per = 2
		}
		for _, l := range cfg.Lanes {
			if l.Race {
				continue
			}
			for w := 0; w < per; w++ {
				for _, g := range []int{1, 4, 16} {
					jobs = append(jobs, job{l, w, g})
				}
			}
		}
		results := make([]string, len(jobs))
		runOne := func(i int, j job) {
			out := filepath.Join(scratch, fmt.Sprintf("det-%d.json", i))
			os.Remove(out)
			cmd := exec.Command(workerBin, "-prop", id, "-sites", sitesPath, "-seed", strconv.FormatUint(seed^0xd17e, 10), "-worker", strconv.Itoa(j.w),
				"-evals", strconv.Itoa(detEvals), "-variant", j.lane.Variant, "-tier", *tier, "-out", out, "-maxfail", "1000000")
			cmd.Env = workerEnv(j.gmp)
			var eb bytes.Buffer
			cmd.Stderr = &eb
			err := cmd.Run()
			var r workerReport
			if b, rerr := os.ReadFile(out); rerr == nil && json.Unmarshal(b, &r) == nil {
				results[i] = r.DetHash
			} else {
				results[i] = fmt.Sprintf("ERR: run=%v read=%v stderr=%s", err, rerr, tail(eb.String(), 5))
			}
		}
		sem := make(chan struct{}, *workers)
		var wg sync.WaitGroup
		for i, j := range jobs {
			wg.Add(1)
			sem <- struct{}{}
			go func(i int, j job) {
				defer wg.Done()
				defer func() { <-sem }()
				runOne(i, j)
			}(i, j)
		}
		wg.Wait()
		// a worker process that failed to run at all (no report) is retried once, alone
		for i, j := range jobs {
			if strings.HasPrefix(results[i], "ERR:") {
				fmt.Printf("determinism self-test: process %d produced no report (%s); retrying once\n", i, results[i])
				runOne(i, j)
			}
		}
		for i := 0; i < len(jobs); i += 3 {
			detRuns += 3
			if results[i] != results[i+1] || results[i] != results[i+2] || strings.HasPrefix(results[i], "ERR:") {
				detMismatch++
				fmt.Printf("determinism self-test mismatch: lane=%q worker=%d hashes=%v\n", jobs[i].lane.Variant, jobs[i].w, results[i:i+3])
			}
		}
		if detMismatch > 0 {
			die(2, "the harness is not deterministic; no verdict")
		}
		fmt.Printf("determinism self-test: %d processes (GOMAXPROCS 1/4/16), %d evaluations each, 0 mismatches\n", detRuns, detEvals)
	}

	// 4. exploration
	spent := time.Since(start).Seconds()
	explore := budget - spent
	if explore < budget/3 {
		explore = budget / 3
	}
	type wjob struct {
		lane lane
		w    int
	}
	var jobs []wjob
	// distribute workers over lanes by share
	totalShare := 0.0
	for _, l := range cfg.Lanes {
		totalShare += l.Share
	}
	wi := 0
	for li, l := range cfg.Lanes {
		n := int(float64(*workers)*l.Share/totalShare + 0.5)
		if n < 1 {
			n = 1
		}
		if li == len(cfg.Lanes)-1 && wi+n < *workers {
			n = *workers - wi
		}
		for k := 0; k < n; k++ {
			jobs = append(jobs, wjob{l, wi})
			wi++
		}
	}
	reports := make([]*workerReport, len(jobs))
	exitCodes := make([]int, len(jobs))
	stderrs := make([]string, len(jobs))
	{
		var wg sync.WaitGroup
		for i, j := range jobs {
			wg.Add(1)
			go func(i int, j wjob) {
				defer wg.Done()
				out := filepath.Join(scratch, fmt.Sprintf("w-%d.json", i))
				evals := j.lane.EvalsQuick
				if *tier == "thorough" {
					evals = j.lane.EvalsThorough
				}
				if evals == 0 {
					evals = 1 << 30
				}
				bin, gmp := workerBin, 1
				args := []string{"-prop", id, "-sites", sitesPath, "-seed", strconv.FormatUint(seed, 10), "-worker", strconv.Itoa(j.w),
					"-evals", strconv.Itoa(evals), "-secs", fmt.Sprintf("%.1f", explore), "-variant", j.lane.Variant, "-tier", *tier, "-out", out}
				env := workerEnv(1)
				if j.lane.Race {
					bin, gmp = raceBin, 4
					rl := filepath.Join(scratch, fmt.Sprintf("race-%d", i))
					args = append(args, "-racelog", rl)
					env = append(os.Environ(), "GOMAXPROCS="+strconv.Itoa(gmp), "GORACE=log_path="+rl+" halt_on_error=0 exitcode=0 history_size=3")
				}
				if !j.lane.Race {
					cmd := exec.Command(bin, args...)
					cmd.Env = env
					var eb bytes.Buffer
					cmd.Stderr = &eb
					err := cmd.Run()
					if ee, ok := err.(*exec.ExitError); ok {
						exitCodes[i] = ee.ExitCode()
					} else if err != nil {
						exitCodes[i] = 2
					}
					stderrs[i] = eb.String()
					var r workerReport
					if b, err := os.ReadFile(out); err == nil && json.Unmarshal(b, &r) == nil {
						reports[i] = &r
					}
					return
				}
				// race lanes restart their worker process every few evaluations: data races on
				// lazily initialised process-wide state only exist in the first runs of a process
				const perProcess = 25
				deadline := time.Now().Add(time.Duration(explore * float64(time.Second)))
				merged := &workerReport{Prop: id, Worker: j.w, Variant: j.lane.Variant, RaceLane: true, Faults: map[string]int{}, Probes: map[string]int{}, SiteRuns: map[string]int{}}
				sigSet := map[string]bool{}
				for start := 0; time.Now().Before(deadline) && start < evals; start += perProcess {
					a2 := append(append([]string{}, args...), "-start", strconv.Itoa(start))
					for k := range a2 {
						if a2[k] == "-evals" {
							a2[k+1] = strconv.Itoa(perProcess)
						}
						if a2[k] == "-secs" {
							a2[k+1] = fmt.Sprintf("%.1f", time.Until(deadline).Seconds())
						}
					}
					os.Remove(out)
					cmd := exec.Command(bin, a2...)
					cmd.Env = env
					var eb bytes.Buffer
					cmd.Stderr = &eb
					err := cmd.Run()
					code := 0
					if ee, ok := err.(*exec.ExitError); ok {
						code = ee.ExitCode()
					} else if err != nil {
						code = 2
					}
					var r workerReport
					b, rerr := os.ReadFile(out)
					if rerr != nil || json.Unmarshal(b, &r) != nil {
						exitCodes[i], stderrs[i] = code, eb.String()
						if code == 0 {
							exitCodes[i] = 2
						}
						return
					}
					merged.Evals += r.Evals
					merged.Nontrivial += r.Nontrivial
					merged.Runs += r.Runs
					merged.Steps += r.Steps
					merged.SimTimeNs += r.SimTimeNs
					merged.WallS += r.WallS
					merged.Gomaxprocs = r.Gomaxprocs
					merged.Seed = r.Seed
					for _, sg := range r.Sigs {
						sigSet[sg] = true
					}
					for k, v := range r.Faults {
						merged.Faults[k] += v
					}
					for k, v := range r.Probes {
						merged.Probes[k] += v
					}
					for k, v := range r.SiteRuns {
						merged.SiteRuns[k] += v
					}
					if len(merged.Samples) < 2 {
						merged.Samples = append(merged.Samples, r.Samples...)
					}
					merged.Failures = append(merged.Failures, r.Failures...)
					if len(r.Hang) > 0 && string(r.Hang) != "null" {
						merged.Hang = r.Hang
					}
					merged.Probes["race_lane_processes"]++
					if code != 0 && code != 4 {
						exitCodes[i], stderrs[i] = code, eb.String()
						break
					}
					if len(merged.Failures) >= 8 {
						break
					}
				}
				for sg := range sigSet {
					merged.Sigs = append(merged.Sigs, sg)
				}
				reports[i] = merged
			}(i, j)
		}
		wg.Wait()
	}
	agg := &workerReport{Faults: map[string]int{}, Probes: map[string]int{}, SiteRuns: map[string]int{}}
	sigs := map[string]bool{}
	cover := map[string]bool{}
	raceUnreproduced := 0
	var failures, raceFailures []json.RawMessage
	var hangs []json.RawMessage
	failureWorker := map[string]int{} // raw failure -> worker id (the lane is in the record)
	raceRuns, raceEvals := 0, 0
	var raceReps []string
	laneEvals := map[string]int{}
	for i, r := range reports {
		if r == nil {
			fmt.Printf("worker %d (lane %q) produced no report (exit %d):\n%s\n", i, jobs[i].lane.Variant, exitCodes[i], tail(stderrs[i], 40))
			die(2, "worker crashed; no verdict")
		}
		if exitCodes[i] != 0 && exitCodes[i] != 4 {
			fmt.Printf("worker %d exit %d:\n%s\n", i, exitCodes[i], tail(stderrs[i], 40))
			die(2, "worker failed; no verdict")
		}
		agg.Evals += r.Evals
		agg.Nontrivial += r.Nontrivial
		agg.Runs += r.Runs
		agg.Steps += r.Steps
		agg.SimTimeNs += r.SimTimeNs
		laneName := r.Variant
		if r.RaceLane {
			laneName += "+race"
			raceRuns += r.Runs
			raceEvals += r.Evals
			raceReps = append(raceReps, r.RaceRep...)
		}
		laneEvals[laneName] += r.Evals
		for _, s := range r.Sigs {
			sigs[r.Variant+":"+s] = true
		}
		for _, cv := range r.Cover {
			cover[cv] = true
		}
		for k, v := range r.Faults {
			agg.Faults[k] += v
		}
		for k, v := range r.Probes {
			agg.Probes[k] += v
		}
		for k, v := range r.SiteRuns {
			agg.SiteRuns[k] += v
		}
		if len(agg.Samples) < 3 {
			agg.Samples = append(agg.Samples, r.Samples...)
		}
		if r.RaceLane {
			raceFailures = append(raceFailures, r.Failures...)
		} else {
			failures = append(failures, r.Failures...)
			for _, f := range r.Failures {
				failureWorker[string(f)] = jobs[i].w
			}
		}
		if len(r.Hang) > 0 && string(r.Hang) != "null" {
			hangs = append(hangs, r.Hang)
		}
	}
	exploreWall := time.Since(start).Seconds() - spent
	fmt.Printf("explored: %d evaluations, %d simulated runs, %d kernel steps, %d distinct non-trivial, %.1fs\n", agg.Evals, agg.Runs, agg.Steps, len(sigs), exploreWall)

	// 4b. fresh-versus-warm: a sample of evaluations that ran late in a long-lived worker is
	// re-executed as the only evaluation of a fresh process; the digests of everything the code under
	// test produced must be equal ("the result does not depend on how many times the run is repeated" -
	// state carried in package-level variables of the code under test shows up here).
	type histSample struct {
		lane   lane
		w, idx int
		digest uint64
	}
	var hist []histSample
	for i, r := range reports {
		if r == nil || r.RaceLane {
			continue
		}
		for _, d := range r.Digests {
			if d[0] > 0 {
				hist = append(hist, histSample{jobs[i].lane, jobs[i].w, int(d[0]), d[1]})
			}
		}
	}
	histMax := 64
	if *tier == "thorough" {
		histMax = 192
	}
	if len(hist) > histMax {
		step := len(hist) / histMax
		var sel []histSample
		for i := len(hist) - 1; i >= 0 && len(sel) < histMax; i -= step {
			sel = append(sel, hist[i])
		}
		hist = sel
	}
	digestOf := func(h histSample, start, evals int, tag string) (uint64, bool) {
		out := filepath.Join(scratch, fmt.Sprintf("hist-%s-%d-%d.json", tag, h.w, h.idx))
		every := 1
		if start == 0 {
			every = h.idx
		}
		cmd := exec.Command(workerBin, "-prop", id, "-sites", sitesPath, "-seed", strconv.FormatUint(seed, 10), "-worker", strconv.Itoa(h.w),
			"-start", strconv.Itoa(start), "-evals", strconv.Itoa(evals), "-digestevery", strconv.Itoa(every), "-variant", h.lane.Variant, "-tier", *tier, "-out", out, "-maxfail", "1000000")
		cmd.Env = workerEnv(1)
		cmd.Run()
		var r workerReport
		if b, err := os.ReadFile(out); err == nil && json.Unmarshal(b, &r) == nil {
			for _, d := range r.Digests {
				if int(d[0]) == h.idx {
					return d[1], true
				}
			}
		}
		return 0, false
	}
	histChecked, histMismatch, histUnstable := 0, 0, 0
	var histViol []histSample
	{
		res := make([]uint64, len(hist))
		oks := make([]bool, len(hist))
		var wg sync.WaitGroup
		sem := make(chan struct{}, *workers)
		for i, h := range hist {
			wg.Add(1)
			sem <- struct{}{}
			go func(i int, h histSample) {
				defer wg.Done()
				defer func() { <-sem }()
				res[i], oks[i] = digestOf(h, h.idx, 1, "fresh")
			}(i, h)
		}
		wg.Wait()
		for i, h := range hist {
			if !oks[i] {
				continue
			}
			histChecked++
			if res[i] != h.digest {
				// confirm: the warm result must reproduce in a new warm process, and the fresh one again
				w2, ok1 := digestOf(h, 0, h.idx+1, "warm")
				f2, ok2 := digestOf(h, h.idx, 1, "fresh2")
				if ok1 && ok2 && w2 == h.digest && f2 == res[i] {
					histMismatch++
					if len(histViol) < 3 {
						histViol = append(histViol, h)
					}
				} else {
					fmt.Printf("fresh-versus-warm: digests of evaluation %d (worker %d, lane %q) differed once but not reproducibly: harness trouble\n", h.idx, h.w, h.lane.Variant)
					histUnstable++
				}
			}
		}
		if histChecked > 0 {
			fmt.Printf("fresh-versus-warm: %d late evaluations re-executed in fresh processes, %d differ\n", histChecked, histMismatch)
		}
	}

	// 5. failures: de-duplicate by class, minimise, confirm in a fresh process, apply known findings
	known := loadKnown(filepath.Join(verifDir, "known_findings.json"))
	replayDir := filepath.Join(outDir, "replays", id)
	violations := 0
	knownHits := map[int]bool{}
	inconclusive := histUnstable
	seen := map[string]bool{}
	report := func(rf *replayHead, path string) {
		for ki, k := range known {
			if k.Status != "known" || k.Property != id || k.Oracle != rf.Oracle || k.Class != rf.Class {
				continue
			}
			hay := rf.Message + "\n" + strings.Join(rf.NonZero, "\n")
			all := true
			for _, c := range k.Contains {
				if !strings.Contains(hay, c) {
					all = false
				}
			}
			if all {
				if !knownHits[ki] {
					knownHits[ki] = true
					fmt.Printf("KNOWN-FINDING: property=%s %s (replay=%s)\n", id, k.What, path)
				}
				return
			}
		}
		if rf.Oracle == "no-deadlock" && strings.Contains(rf.Message, " select)") {
			// a task parked in a rewritten select statement: cases whose partner is parked in the
			// hand-off table of an unbuffered channel are invisible to the real select, so this
			// deadlock may be the simulator's
			fmt.Printf("deadlock involving a select statement (%s): the simulator does not model select exactly; cannot decide\n", path)
			inconclusive++
			return
		}
		if strings.Contains(rf.Message, "is not modelled") {
			// the code under test used a facility the facades do not have (they say so in the error text
			// or panic message): what followed is the simulator's doing, not the program's
			fmt.Printf("the code under test used a facility the simulator does not model (%s): cannot decide\n  %s\n", path, strings.ReplaceAll(rf.Message, "\n", "\n  "))
			inconclusive++
			return
		}
		violations++
		fmt.Printf("VIOLATION property=%s replay=%s\n", id, path)
		fmt.Printf("  oracle=%s class=%s\n  %s\n", rf.Oracle, rf.Class, strings.ReplaceAll(rf.Message, "\n", "\n  "))
		if len(rf.NonZero) > 0 {
			fmt.Printf("  non-canonical choices: %s\n", strings.Join(rf.NonZero, " "))
		}
	}
	handle := func(raw json.RawMessage, isHang bool) {
		var fh failureHead
		if json.Unmarshal(raw, &fh) != nil {
			return
		}
		key := fh.Variant + "|" + fh.V.Oracle + "|" + fh.V.Class
		if seen[key] || len(seen) >= 12 {
			return
		}
		seen[key] = true
		os.MkdirAll(replayDir, 0o755)
		sum := sha1.Sum([]byte(key))
		name := fmt.Sprintf("%s-%x.json", sanitize(fh.V.Class), sum[:4])
		final := filepath.Join(replayDir, name)
		fpath := filepath.Join(scratch, "fail-"+name)
		os.WriteFile(fpath, raw, 0o644)
		if isHang {
			if blocking := blockingUnsupported(sites.Unsupported); len(blocking) > 0 {
				// the tree blocks on something the simulator does not schedule (a channel, a condition
				// variable): a task that blocks there never hands the baton back, which looks like a
				// hang of the code under test but is a limit of the simulator
				fmt.Printf("watchdog: an evaluation of lane %q did not finish, but the tree uses blocking constructs the simulator does not control (%s ...): cannot decide termination\n", fh.Variant, blocking[0])
				inconclusive++
				return
			}
			// confirm the hang alone with a longer budget
			cmd := exec.Command(workerBin, "-prop", id, "-sites", sitesPath, "-replay", fpath, "-tier", *tier)
			cmd.Env = workerEnv(1)
			done := make(chan error, 1)
			cmd.Start()
			go func() { done <- cmd.Wait() }()
			select {
			case err := <-done:
				// the worker's own watchdog ends a replay that hangs or explodes in memory with status 1
				if ee, ok := err.(*exec.ExitError); !ok || ee.ExitCode() != 1 {
					fmt.Println("watchdog: the evaluation finished when re-run alone; not a hang (machine load): ignored")
					return
				}
			case <-time.After(90 * time.Second):
				cmd.Process.Kill()
				<-done
			}
			if !cfg.HangIsVerdict {
				fmt.Printf("watchdog: an evaluation of lane %q does not finish, also when re-run alone (termination is not part of %s): no verdict\n", fh.Variant, id)
				inconclusive++
				return
			}
			os.WriteFile(final, raw, 0o644)
			report(&replayHead{Prop: id, Oracle: fh.V.Oracle, Class: fh.V.Class, Message: fh.V.Message + " (confirmed when re-run alone in a fresh process)"}, final)
			return
		}
		tmpOut := filepath.Join(scratch, "min-"+name)
		cmd := exec.Command(workerBin, "-prop", id, "-sites", sitesPath, "-minimise", fpath, "-out", tmpOut, "-tier", *tier)
		cmd.Env = workerEnv(1)
		var eb bytes.Buffer
		cmd.Stderr = &eb
		if err := cmd.Run(); err != nil {
			// The failure does not occur as the first evaluation of a fresh process. Either it depends
			// on what the same process evaluated before (state the code under test carries from one
			// run to the next - a violation in its own right, reproducible by replaying the history),
			// or the harness is not deterministic.
			if w, ok := failureWorker[string(raw)]; ok {
				if reproducesWithHistory(id, workerBin, sitesPath, scratch, seed, w, fh.Variant, *tier, fh.Eval, fh.V.Oracle, fh.V.Class, workerEnv(1)) {
					hr := map[string]any{"property": id, "oracle": fh.V.Oracle, "class": fh.V.Class, "kind": "failure-with-history",
						"message": fh.V.Message + "\n  (the failure occurs as evaluation " + strconv.Itoa(fh.Eval) + " of a process that ran the evaluations before it, reproducibly, but not as the first evaluation of a fresh process: the code under test carries state from one run to the next)",
						"seed":    seed, "variant": fh.Variant, "worker": w, "index": fh.Eval, "tier": *tier}
					b, _ := json.MarshalIndent(hr, "", " ")
					os.WriteFile(final, b, 0o644)
					report(&replayHead{Prop: id, Oracle: fh.V.Oracle, Class: fh.V.Class, Message: hr["message"].(string)}, final)
					return
				}
			}
			fmt.Printf("minimiser could not reproduce %s (%v): %s\n", key, err, tail(eb.String(), 5))
			inconclusive++
			return
		}
		// confirm in a fresh process
		cmd = exec.Command(workerBin, "-prop", id, "-sites", sitesPath, "-replay", tmpOut, "-tier", *tier)
		cmd.Env = workerEnv(1)
		var ob bytes.Buffer
		cmd.Stdout = &ob
		cmd.Stderr = &ob
		err := cmd.Run()
		code := 0
		if ee, ok := err.(*exec.ExitError); ok {
			code = ee.ExitCode()
		}
		if code != 1 {
			fmt.Printf("replay of the minimised failure %s did not reproduce in a fresh process (exit %d): harness non-determinism\n%s\n", key, code, tail(ob.String(), 10))
			inconclusive++
			return
		}
		b, _ := os.ReadFile(tmpOut)
		os.WriteFile(final, b, 0o644)
		var rf replayHead
		json.Unmarshal(b, &rf)
		report(&rf, final)
	}
	for _, f := range failures {
		handle(f, false)
	}
	// failures found by the race lane are confirmed, unminimised, by re-executing their choice
	// vector in a fresh process of the -race build (the race detector reports a race once per
	// process, so in-process minimisation would lose it)
	for _, raw := range raceFailures {
		var fh failureHead
		if json.Unmarshal(raw, &fh) != nil {
			continue
		}
		key := "race|" + fh.Variant + "|" + fh.V.Oracle + "|" + fh.V.Class
		if seen[key] || len(seen) >= 16 {
			continue
		}
		seen[key] = true
		os.MkdirAll(replayDir, 0o755)
		sum := sha1.Sum([]byte(key))
		name := fmt.Sprintf("%s-%x.json", sanitize(fh.V.Class), sum[:4])
		final := filepath.Join(replayDir, name)
		fpath := filepath.Join(scratch, "fail-"+name)
		os.WriteFile(fpath, raw, 0o644)
		// A race report is sound whenever it appears, but whether the detector sees a given race in a
		// given process also depends on happens-before edges it derives from sync.Pool reuse inside
		// fmt (per-P, not under the simulator's control): re-execute in up to 4 fresh processes.
		code := 0
		var ob bytes.Buffer
		for attempt := 0; attempt < 4 && code != 1; attempt++ {
			rl := filepath.Join(scratch, fmt.Sprintf("race-replay-%d-%s", attempt, name))
			cmd := exec.Command(raceBin, "-prop", id, "-sites", sitesPath, "-replay", fpath, "-tier", *tier, "-racelog", rl)
			cmd.Env = append(os.Environ(), "GOMAXPROCS=4", "GORACE=log_path="+rl+" halt_on_error=0 exitcode=0 history_size=3")
			ob.Reset()
			cmd.Stdout, cmd.Stderr = &ob, &ob
			err := cmd.Run()
			code = 0
			if ee, ok := err.(*exec.ExitError); ok {
				code = ee.ExitCode()
			}
		}
		if code != 1 {
			fmt.Printf("race-lane report %s was not reproduced by 4 fresh processes; not reported\n", key)
			raceUnreproduced++
			continue
		}
		os.WriteFile(final, raw, 0o644)
		report(&replayHead{Prop: id, Oracle: fh.V.Oracle, Class: fh.V.Class, Message: fh.V.Message}, final)
	}
	for _, h := range hangs {
		handle(h, true)
	}
	for _, h := range histViol {
		os.MkdirAll(replayDir, 0o755)
		final := filepath.Join(replayDir, fmt.Sprintf("history-dependent-%s-w%d-i%d.json", sanitize(h.lane.Variant), h.w, h.idx))
		msg := fmt.Sprintf("evaluation %d of worker %d (lane %q, seed %d) produces other results after the %d evaluations before it in the same process than as the first evaluation of a fresh process: the code under test carries state from one run to the next", h.idx, h.w, h.lane.Variant, int64(seed), h.idx)
		b, _ := json.MarshalIndent(map[string]any{"property": id, "oracle": "fresh-vs-warm", "class": "history-dependent", "message": msg,
			"variant": h.lane.Variant, "seed": int64(seed), "worker": h.w, "index": h.idx, "tier": *tier}, "", " ")
		os.WriteFile(final, b, 0o644)
		report(&replayHead{Prop: id, Oracle: "fresh-vs-warm", Class: "history-dependent", Message: msg}, final)
	}
	// race reports
	raceViol := 0
	for _, raw := range raceFailures {
		if bytes.Contains(raw, []byte(`"no-data-race"`)) {
			raceViol++
		}
	}

	// every listed known finding of this property is named on every run, whether or not this run met it
	for ki, k := range known {
		if k.Status == "known" && k.Property == id && !knownHits[ki] {
			fmt.Printf("KNOWN-FINDING: property=%s %s (listed in known_findings.json; not encountered in this run)\n", id, k.What)
		}
	}

	// 6. evidence
	probes := agg.Probes
	ev := map[string]any{
		"property_id": id,
		"tier":        *tier,
		"seed":        int64(seed),
		"level":       cfg.Level,
		"wall_s":      round1(time.Since(start).Seconds()),
		"violations":  violations,
		"assumptions": append(append([]string{}, common...), cfg.Assumptions...),
		"coverage": map[string]any{
			"evaluations":            agg.Evals,
			"distinct_nontrivial":    len(sigs),
			"rule":                   cfg.Rule,
			"samples":                agg.Samples,
			"simulated_runs":         agg.Runs,
			"kernel_steps":           agg.Steps,
			"runs_per_hour":          int(float64(agg.Runs) / max(exploreWall, 0.001) * 3600),
			"seeds_per_hour":         int(float64(agg.Evals) / max(exploreWall, 0.001) * 3600),
			"seeds":                  map[string]any{"base": int64(seed), "workers": len(jobs), "derivation": "evaluation seed = mix(mix(base, worker), index)"},
			"simulated_time_ms":      agg.SimTimeNs / 1e6,
			"faults_fired":           agg.Faults,
			"probes":                 probes,
			"enumerated_inputs":      coverSummary(cover, cfg.Universes),
			"evaluations_per_lane":   laneEvals,
			"nontrivial_evaluations": agg.Nontrivial,
			"known_findings_hit":     len(knownHits),
			"inconclusive":           inconclusive,
			"map_sites":              map[string]any{"instrumented": len(sites.Sites), "native": sites.Native, "exercised_nonidentity": len(agg.SiteRuns), "runs_per_site": agg.SiteRuns},
			"unsupported_constructs": sites.Unsupported,
			"go_statements":          map[string]int{"rewritten": sites.GoStmts, "late_argument_evaluation": sites.GoApprox},
			"determinism_selftest":   map[string]any{"processes": detRuns, "evaluations_each": detEvals, "gomaxprocs": []int{1, 4, 16}, "mismatches": detMismatch},
			"fresh_vs_warm":          map[string]any{"late_evaluations_reexecuted_in_fresh_processes": histChecked, "differing": histMismatch, "unstable": histUnstable},
			"race_lane":              map[string]any{"evaluations": raceEvals, "runs": raceRuns, "race_violation_classes": raceViol, "reports_not_reproduced_in_fresh_processes": raceUnreproduced, "gomaxprocs": 4},
			"components": map[string]any{
				"real": []string{"actionlint (every non-test source of the current /repo tree, import clauses and map ranges rewritten by simgen)", "yaml.v3", "doublestar", "robfig/cron", "go-shellwords", "fatih/color", "regexp", "text/template", "encoding/json"},
				"stub": []string{"sync (Mutex, RWMutex, WaitGroup, Once)", "x/sync errgroup + semaphore", "os file system + cwd (virtual disk)", "os/exec + x/sys/execabs + shellcheck/pyflakes binaries (tool models)", "path/filepath Abs/Walk", "runtime.NumCPU", "time.Now/Sleep (simulated clock)"},
			},
		},
	}
	os.MkdirAll(filepath.Join(outDir, "evidence"), 0o755)
	eb, _ := json.MarshalIndent(ev, "", " ")
	if err := os.WriteFile(filepath.Join(outDir, "evidence", id+".json"), eb, 0o644); err != nil {
		die(2, err)
	}
	fmt.Printf("evidence: %s (wall %.1fs)\n", filepath.Join(outDir, "evidence", id+".json"), time.Since(start).Seconds())
	switch {
	case violations > 0:
		exit(1)
	case inconclusive > 0:
		fmt.Println("inconclusive outcomes occurred (see above); no verdict")
		exit(2)
	}
	fmt.Printf("OK property=%s held on everything explored\n", id)
	exit(0)
}

func fileExists(p string) bool {
	_, err := os.Stat(p)
	return err == nil
}

func round1(f float64) float64 { return float64(int(f*10+0.5)) / 10 }

func tail(s string, n int) string {
	lines := strings.Split(strings.TrimRight(s, "\n"), "\n")
	if len(lines) > n {
		lines = lines[len(lines)-n:]
	}
	return strings.Join(lines, "\n")
}

func sanitize(s string) string {
	var b strings.Builder
	for _, r := range s {
		switch {
		case r >= 'a' && r <= 'z', r >= 'A' && r <= 'Z', r >= '0' && r <= '9', r == '-', r == '_', r == '.':
			b.WriteRune(r)
		default:
			b.WriteByte('_')
		}
	}
	out := b.String()
	if len(out) > 60 {
		out = out[:60]
	}
	if out == "" {
		out = "x"
	}
	return out
}

func loadKnown(path string) []knownFinding {
	b, err := os.ReadFile(path)
	if err != nil {
		return nil
	}
	var k []knownFinding
	if err := json.Unmarshal(b, &k); err != nil {
		die(2, "known_findings.json:", err)
	}
	return k
}

// raceReports splits the race detector's output into individual reports.
func raceReports(stderr string) []string {
	var out []string
	parts := strings.Split(stderr, "==================\n")
	for _, p := range parts {
		if strings.Contains(p, "WARNING: DATA RACE") {
			out = append(out, p)
		}
	}
	return out
}

// handleRaceReports classifies race reports: both access stacks must contain
// a frame of the code under test; reports with simulator frames only are
// harness noise (exit 2 by the caller through inconclusive - here: printed).
func handleRaceReports(id string, reps []string, known []knownFinding, knownHits map[int]bool, replayDir string, violations *int) int {
	type cls struct {
		key  string
		text string
		n    int
	}
	byKey := map[string]*cls{}
	for _, r := range reps {
		frames := actionlintFrames(r)
		if len(frames) == 0 {
			continue
		}
		key := strings.Join(frames, " <-> ")
		if c, ok := byKey[key]; ok {
			c.n++
		} else {
			byKey[key] = &cls{key: key, text: r, n: 1}
		}
	}
	keys := make([]string, 0, len(byKey))
	for k := range byKey {
		keys = append(keys, k)
	}
	sort.Strings(keys)
	n := 0
	for _, k := range keys {
		c := byKey[k]
		matched := false
		for ki, kf := range known {
			if kf.Status != "known" || kf.Property != id || kf.Oracle != "no-data-race" {
				continue
			}
			all := true
			for _, s := range kf.Contains {
				if !strings.Contains(c.text, s) {
					all = false
				}
			}
			if all {
				matched = true
				if !knownHits[ki] {
					knownHits[ki] = true
					fmt.Printf("KNOWN-FINDING: property=%s %s\n", id, kf.What)
				}
				break
			}
		}
		if matched {
			continue
		}
		os.MkdirAll(replayDir, 0o755)
		sum := sha1.Sum([]byte(k))
		path := filepath.Join(replayDir, fmt.Sprintf("race-%x.txt", sum[:4]))
		os.WriteFile(path, []byte(fmt.Sprintf("data race reported %d time(s) by the race lane; accesses: %s\n\n%s", c.n, k, c.text)), 0o644)
		fmt.Printf("VIOLATION property=%s replay=%s\n  oracle=no-data-race %s (%d reports)\n", id, path, k, c.n)
		*violations++
		n++
	}
	return n
}

// actionlintFrames returns, for the two access stacks of a race report, the
// innermost frame of the code under test; empty when either stack has none.
func actionlintFrames(rep string) []string {
	var out []string
	sections := strings.Split(rep, "\n\n")
	for _, sec := range sections {
		if !(strings.HasPrefix(strings.TrimSpace(sec), "Read at") || strings.HasPrefix(strings.TrimSpace(sec), "Write at") ||
			strings.HasPrefix(strings.TrimSpace(sec), "Previous read at") || strings.HasPrefix(strings.TrimSpace(sec), "Previous write at") ||
			strings.HasPrefix(strings.TrimSpace(sec), "WARNING: DATA RACE")) {
			continue
		}
		found := ""
		for _, l := range strings.Split(sec, "\n") {
			l = strings.TrimSpace(l)
			if strings.HasPrefix(l, "github.com/rhysd/actionlint.") {
				found = strings.TrimPrefix(l, "github.com/rhysd/actionlint.")
				if i := strings.LastIndex(found, "("); i > 0 {
					found = found[:i]
				}
				break
			}
		}
		if strings.Contains(sec, " at 0x") {
			if found == "" {
				return nil
			}
			out = append(out, found)
		}
	}
	if len(out) < 2 {
		return nil
	}
	sort.Strings(out)
	return out
}

// coverSummary reports, per stated finite input universe, how many of its elements the run
// evaluated at least once (elements are reported by the scenario as "<universe>:<element>").
func coverSummary(cover map[string]bool, universes map[string]int) map[string]any {
	reached := map[string]int{}
	for cv := range cover {
		if i := strings.IndexByte(cv, ':'); i > 0 {
			reached[cv[:i]]++
		}
	}
	out := map[string]any{}
	for u, size := range universes {
		out[u] = map[string]any{"size": size, "reached": reached[u], "complete": reached[u] == size}
	}
	return out
}
