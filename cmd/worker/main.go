// Command worker is the simulation harness process: it is built by `check`
// with -overlay against the current /repo sources and runs evaluations of one
// property's scenario, or minimises / replays one failing evaluation.
package main

import (
	"encoding/json"
	"flag"
	"fmt"
	"os"
	"runtime"
	"sort"
	"strings"
	"sync/atomic"
	"time"

	"verifsim/harness"
	"verifsim/sim/kern"
)

// Report is the worker's result file.
type Report struct {
	Prop       string             `json:"property"`
	Worker     int                `json:"worker"`
	Seed       uint64             `json:"seed"`
	Variant    string             `json:"variant,omitempty"`
	RaceLane   bool               `json:"race_lane"`
	Gomaxprocs int                `json:"gomaxprocs"`
	Evals      int                `json:"evals"`
	Nontrivial int                `json:"nontrivial"`
	Runs       int                `json:"runs"`
	Steps      int                `json:"steps"`
	SimTimeNs  int64              `json:"sim_time_ns"`
	Cover      []string           `json:"cover,omitempty"` // distinct elements of stated finite input universes that were evaluated
	Sigs       []string           `json:"sigs"` // distinct signatures of non-trivial evaluations (hex)
	Faults     map[string]int     `json:"faults"`
	Probes     map[string]int     `json:"probes"`
	SiteRuns   map[string]int     `json:"site_runs"`
	Samples    []any              `json:"samples"`
	Failures   []*harness.Failure `json:"failures"`
	Hang       *harness.Failure   `json:"hang,omitempty"`
	WallS      float64            `json:"wall_s"`
	DetHash    string             `json:"det_hash"`
	Digests    [][2]uint64        `json:"digests,omitempty"` // (evaluation index, digest) samples for the fresh-vs-warm comparison // digest of (signature, steps, violation class) of every evaluation in order
}

func mix(a, b uint64) uint64 {
	x := a ^ (b+0x9e3779b97f4a7c15)*0xbf58476d1ce4e5b9
	x ^= x >> 29
	x *= 0x94d049bb133111eb
	x ^= x >> 32
	return x
}

func main() {
	prop := flag.String("prop", "", "property id")
	sites := flag.String("sites", "", "path of simgen's sites.json")
	seed := flag.Uint64("seed", 1, "base seed")
	worker := flag.Int("worker", 0, "worker index")
	evals := flag.Int("evals", 1000, "maximum number of evaluations")
	secs := flag.Float64("secs", 0, "wall-clock budget in seconds (0 = none)")
	tier := flag.String("tier", "quick", "quick | thorough")
	variant := flag.String("variant", "", "scenario sub-configuration")
	out := flag.String("out", "", "report file")
	replay := flag.String("replay", "", "replay file to re-execute")
	minimise := flag.String("minimise", "", "failure file to minimise")
	maxFail := flag.Int("maxfail", 8, "stop after this many failures")
	evalTimeout := flag.Float64("evaltimeout", 30, "wall-clock limit of one evaluation in seconds")
	startAt := flag.Int("start", 0, "index of the first evaluation")
	digestEvery := flag.Int("digestevery", 61, "record the digest of every n-th evaluation (index < 4000)")
	raceLog := flag.String("racelog", "", "race lane: prefix given to GORACE=log_path (reports are attributed to the evaluation that produced them)")
	flag.Parse()

	if err := harness.LoadSites(*sites); err != nil {
		fmt.Fprintln(os.Stderr, "worker:", err)
		os.Exit(2)
	}
	s := harness.Lookup(*prop)
	if s == nil {
		fmt.Fprintln(os.Stderr, "worker: unknown property", *prop)
		os.Exit(2)
	}
	env := &harness.Env{Tier: *tier, Variant: *variant}

	replayRaceLog = *raceLog
	rep := &Report{Prop: *prop, Worker: *worker, Seed: *seed, Variant: *variant, RaceLane: kern.RaceLane, Gomaxprocs: runtime.GOMAXPROCS(0),
		Faults: map[string]int{}, Probes: map[string]int{}, SiteRuns: map[string]int{}}
	start := time.Now()
	// watchdog: a single evaluation that neither finishes nor enters the
	// kernel is a hang of the code under test (or harness trouble).
	var cur atomic.Pointer[harness.Failure]
	var tick atomic.Int64
	kern.RunHook = func() { tick.Add(1) }
	go func() {
		last, lastAt := int64(-1), time.Now()
		memTick := 0
		for {
			time.Sleep(50 * time.Millisecond)
			// a run whose memory grows without bound does not terminate either
			var ms runtime.MemStats
			if memTick++; memTick%4 == 0 {
				runtime.ReadMemStats(&ms)
			}
			if ms.HeapAlloc > 3<<30 {
				if f := cur.Load(); f != nil {
					f.V = harness.Violation{Oracle: "terminates", Class: "hang", Message: fmt.Sprintf("a simulated run allocated more than 3 GiB without finishing (memory grows without bound)")}
					rep.Hang = f
				}
				if *replay != "" || *minimise != "" {
					fmt.Printf("REPLAY: violation property=%s oracle=terminates class=hang\na simulated run allocated more than 3 GiB without finishing (memory grows without bound)\n", *prop)
					os.Exit(1)
				}
				rep.WallS = time.Since(start).Seconds()
				writeReport(rep, *out)
				os.Exit(4)
			}
			t := tick.Load()
			if t != last {
				last, lastAt = t, time.Now()
				continue
			}
			if time.Since(lastAt).Seconds() > *evalTimeout {
				if f := cur.Load(); f != nil {
					f.V = harness.Violation{Oracle: "terminates", Class: "hang", Message: fmt.Sprintf("a simulated run did not finish within %.0f s of wall-clock time without entering the kernel", *evalTimeout)}
					rep.Hang = f
				}
				if *replay != "" || *minimise != "" {
					fmt.Printf("REPLAY: violation property=%s oracle=terminates class=hang\na simulated run did not finish within %.0f s\n", *prop, *evalTimeout)
					os.Exit(1)
				}
				rep.WallS = time.Since(start).Seconds()
				writeReport(rep, *out)
				os.Exit(4)
			}
		}
	}()

	switch {
	case *replay != "":
		os.Exit(doReplay(s, env, *replay))
	case *minimise != "":
		os.Exit(doMinimise(s, env, *minimise, *out))
	}

	sigs := map[uint64]bool{}
	cover := map[string]bool{}
	classes := map[string]bool{}
	var det uint64 = 1469598103934665603

	var detDump *os.File
	if p := os.Getenv("VERIF_DET_DUMP"); p != "" {
		detDump, _ = os.Create(p)
		defer detDump.Close()
	}
	for i := *startAt; i < *startAt+*evals; i++ {
		if *secs > 0 && time.Since(start).Seconds() > *secs {
			break
		}
		es := mix(mix(*seed, uint64(*worker)), uint64(i))
		c := harness.NewRandom(es)
		cur.Store(&harness.Failure{Prop: *prop, Seed: es, Eval: i, Variant: *variant})
		o := s.Eval(c, env)
		tick.Add(1)
		if *raceLog != "" {
			// always consume what the race detector wrote during this evaluation, so that a
			// report is never attributed to a later evaluation
			if v := newRaceReports(*raceLog); v != nil && o.V == nil {
				o.V = v
			}
		}
		rep.Evals++
		rep.Runs += o.Runs
		rep.Steps += o.Steps
		rep.SimTimeNs += o.SimTimeNs
		for k, v := range o.Faults {
			rep.Faults[k] += v
		}
		for k, v := range o.Probes {
			rep.Probes[k] += v
		}
		if o.Nontrivial {
			rep.Nontrivial++
			sigs[o.Sig] = true
		}
		for _, cv := range o.Cover {
			cover[cv] = true
		}
		cls := ""
		if o.V != nil {
			cls = o.V.Oracle + "/" + o.V.Class
		}
		if o.Digest != 0 && i < 4000 && (i%*digestEvery == 0 || *evals == 1) {
			rep.Digests = append(rep.Digests, [2]uint64{uint64(i), o.Digest})
		}
		if detDump != nil {
			fmt.Fprintf(detDump, "%d sig=%x steps=%d runs=%d cls=%s\n", i, o.Sig, o.Steps, o.Runs, cls)
		}
		det = mix(det, o.Sig)
		det = mix(det, uint64(o.Steps))
		for j := 0; j < len(cls); j++ {
			det = mix(det, uint64(cls[j]))
		}
		if len(rep.Samples) < 2 && o.Sample != nil && (o.Nontrivial || i > 20) {
			rep.Samples = append(rep.Samples, o.Sample)
		}
		if o.V != nil {
			// one failure per class per worker is enough; the driver de-duplicates across workers
			if !classes[cls] {
				classes[cls] = true
				rep.Failures = append(rep.Failures, &harness.Failure{Prop: *prop, Seed: es, Eval: i, Variant: *variant, Choices: c.Log, V: *o.V})
			}
			rep.Probes["violating_evaluations"]++
			if len(rep.Failures) >= *maxFail {
				break
			}
		}
	}
	for i, n := range harness.SiteExercise[:len(harness.Sites.Sites)] {
		if n > 0 {
			rep.SiteRuns[harness.Sites.Sites[i]] = n
		}
	}
	for cv := range cover {
		rep.Cover = append(rep.Cover, cv)
	}
	sort.Strings(rep.Cover)
	for sg := range sigs {
		rep.Sigs = append(rep.Sigs, fmt.Sprintf("%x", sg))
	}
	sort.Strings(rep.Sigs)
	rep.DetHash = fmt.Sprintf("%x", det)
	rep.WallS = time.Since(start).Seconds()
	writeReport(rep, *out)
}

var raceLogOff int64

// newRaceReports reads what the race detector appended to its log since the
// last call and turns reports whose two access stacks both contain a frame of
// the code under test into a violation of the evaluation that just ran.
func newRaceReports(prefix string) *harness.Violation {
	path := fmt.Sprintf("%s.%d", prefix, os.Getpid())
	b, err := os.ReadFile(path)
	if err != nil || int64(len(b)) <= raceLogOff {
		return nil
	}
	fresh := string(b[raceLogOff:])
	raceLogOff = int64(len(b))
	for _, rep := range strings.Split(fresh, "==================\n") {
		if !strings.Contains(rep, "WARNING: DATA RACE") {
			continue
		}
		frames := harness.RaceFrames(rep)
		if len(frames) < 2 {
			continue // no frame of the code under test on one side: harness noise, not a verdict
		}
		return &harness.Violation{Oracle: "no-data-race", Class: "race:" + strings.Join(frames, "<->"),
			Message: "the race detector reports a data race between " + frames[0] + " and " + frames[1] + " (accesses not ordered by any synchronisation of the real program)", Detail: rep}
	}
	return nil
}

func writeReport(rep *Report, out string) {
	b, err := json.Marshal(rep)
	if err != nil {
		fmt.Fprintln(os.Stderr, "worker:", err)
		os.Exit(2)
	}
	if out == "" {
		os.Stdout.Write(b)
		return
	}
	if err := os.WriteFile(out, b, 0o644); err != nil {
		fmt.Fprintln(os.Stderr, "worker:", err)
		os.Exit(2)
	}
}

// ReplayFile is the replay / minimised-failure file format.
type ReplayFile struct {
	Prop      string             `json:"property"`
	Variant   string             `json:"variant,omitempty"`
	Seed      uint64             `json:"seed"`
	Oracle    string             `json:"oracle"`
	Class     string             `json:"class"`
	Message   string             `json:"message"`
	Detail    any                `json:"detail,omitempty"`
	Choices   []kern.Choice      `json:"choices"`
	NonZero   []string           `json:"nonzero_choices"` // the choices that differ from the canonical run, readable
	World     *harness.WorldJSON `json:"world,omitempty"`
	Traces    [][]string         `json:"traces,omitempty"`
	Tests     int                `json:"minimiser_tests"`
	FromLen   int                `json:"choices_before_minimisation"`
	TraceHash string             `json:"trace_hash,omitempty"`
}

func readFailure(path string) (*harness.Failure, *ReplayFile, error) {
	b, err := os.ReadFile(path)
	if err != nil {
		return nil, nil, err
	}
	var rf ReplayFile
	if err := json.Unmarshal(b, &rf); err == nil && rf.Oracle != "" {
		return &harness.Failure{Prop: rf.Prop, Seed: rf.Seed, Variant: rf.Variant, Choices: rf.Choices,
			V: harness.Violation{Oracle: rf.Oracle, Class: rf.Class, Message: rf.Message}}, &rf, nil
	}
	var f harness.Failure
	if err := json.Unmarshal(b, &f); err != nil {
		return nil, nil, err
	}
	return &f, nil, nil
}

func nonZero(v []kern.Choice) []string {
	var out []string
	counts := map[string]int{}
	for _, ch := range v {
		cl := kern.Class(ch.L)
		counts[cl]++
		if ch.V != 0 {
			out = append(out, fmt.Sprintf("%s[%d]=%d/%d", ch.L, counts[cl]-1, ch.V, ch.N))
		}
	}
	return out
}

func buildReplay(f *harness.Failure, o *harness.Outcome, v []kern.Choice, tests, fromLen int) *ReplayFile {
	rf := &ReplayFile{Prop: f.Prop, Variant: f.Variant, Seed: f.Seed, Oracle: o.V.Oracle, Class: o.V.Class, Message: o.V.Message, Detail: o.V.Detail,
		Choices: v, NonZero: nonZero(v), Traces: o.Traces, Tests: tests, FromLen: fromLen}
	if o.World != nil {
		rf.World = o.World.Materialise()
	}
	return rf
}

func doMinimise(s harness.Scenario, env *harness.Env, path, out string) int {
	f, _, err := readFailure(path)
	if err != nil {
		fmt.Fprintln(os.Stderr, "worker:", err)
		return 2
	}
	env.Variant = f.Variant
	env.KeepTrace = true
	// first reproduction in this fresh process: kept as the fallback when the violation cannot be
	// reproduced a second time in one process (it persists in process state, e.g. a table that
	// has been sorted in place stays sorted)
	c0 := harness.NewReplay(f.Choices)
	o0 := s.Eval(c0, env)
	if o0.V == nil || o0.V.Class != f.V.Class || o0.V.Oracle != f.V.Oracle {
		fmt.Fprintln(os.Stderr, "worker: failure did not reproduce in the minimiser process")
		return 3
	}
	env.KeepTrace = false
	v, _, tests := harness.Minimise(s, env, f, 60*time.Second)
	var rf *ReplayFile
	if v != nil {
		env.KeepTrace = true
		c := harness.NewReplay(v)
		o := s.Eval(c, env)
		if o.V != nil && o.V.Class == f.V.Class {
			rf = buildReplay(f, o, c.Log, tests, len(f.Choices))
		}
	}
	if rf == nil {
		rf = buildReplay(f, o0, c0.Log, 1, len(f.Choices))
	}
	b, _ := json.MarshalIndent(rf, "", " ")
	if err := os.WriteFile(out, b, 0o644); err != nil {
		fmt.Fprintln(os.Stderr, "worker:", err)
		return 2
	}
	return 0
}

var replayRaceLog string

func doReplay(s harness.Scenario, env *harness.Env, path string) int {
	f, rf, err := readFailure(path)
	if err != nil {
		fmt.Fprintln(os.Stderr, "worker:", err)
		return 2
	}
	env.Variant = f.Variant
	env.KeepTrace = true
	c := harness.NewReplay(f.Choices)
	if len(f.Choices) == 0 && f.Seed != 0 {
		// an evaluation that never finished has no recorded vector: regenerate it from its seed
		c = harness.NewRandom(f.Seed)
	}
	o := s.Eval(c, env)
	if o.V == nil && replayRaceLog != "" {
		o.V = newRaceReports(replayRaceLog)
	}
	if o.V == nil {
		fmt.Println("REPLAY: no violation (the property held on this replay)")
		return 0
	}
	fmt.Printf("REPLAY: violation property=%s oracle=%s class=%s\n%s\n", f.Prop, o.V.Oracle, o.V.Class, o.V.Message)
	if o.V.Detail != nil {
		b, _ := json.MarshalIndent(o.V.Detail, "", " ")
		fmt.Println(strings.ReplaceAll(string(b), `\n`, "\n"))
	}
	fmt.Println("non-canonical choices:", strings.Join(nonZero(c.Log), " "))
	for i, tr := range o.Traces {
		fmt.Printf("--- trace of run %d (%d events)\n", i, len(tr))
		for _, l := range tr {
			fmt.Println(l)
		}
	}
	same := rf == nil || (o.V.Oracle == rf.Oracle && o.V.Class == rf.Class)
	if !same {
		fmt.Printf("REPLAY: class differs from the recorded one (%s/%s)\n", rf.Oracle, rf.Class)
	}
	return 1
}
