// Command simgen rewrites the current non-test sources of package actionlint
// (never touching /repo) into a scratch directory and emits a `go build
// -overlay` file, so that the real code runs on top of the simulator:
//
//  1. imports of sync, x/sync/errgroup, x/sync/semaphore, os, os/exec,
//     x/sys/execabs, path/filepath, runtime and time are re-pointed at the facade
//     packages under verifsim/sim;
//  2. `for k, v := range m` over a map with an ordered key type becomes a loop
//     over simrt.Iter(m, site), whose order the simulator chooses per site;
//  3. `go` statements become simrt.Go;
//  4. a generated in-package file (build tag verif) lists pointers to every
//     package-level variable for the table-immutability oracle.
//
// usage: simgen <package dir> <out dir>   (run with cwd = package dir)
package main

import (
	"bytes"
	"encoding/json"
	"fmt"
	"go/ast"
	"go/build"
	"go/format"
	"go/importer"
	"go/parser"
	"go/token"
	"go/types"
	"os"
	"path/filepath"
	"sort"
	"strconv"
	"strings"
)

var redirect = map[string][2]string{
	"sync":                        {"sync", "verifsim/sim/simsync"},
	"golang.org/x/sync/errgroup":  {"errgroup", "verifsim/sim/simerrgroup"},
	"golang.org/x/sync/semaphore": {"semaphore", "verifsim/sim/simsemaphore"},
	"os":                          {"os", "verifsim/sim/simos"},
	"os/exec":                     {"exec", "verifsim/sim/simexec"},
	"golang.org/x/sys/execabs":    {"execabs", "verifsim/sim/simexecabs"},
	"path/filepath":               {"filepath", "verifsim/sim/simfilepath"},
	"runtime":                     {"runtime", "verifsim/sim/simruntime"},
	"time":                        {"time", "verifsim/sim/simtime"},
	"context":                     {"context", "verifsim/sim/simcontext"},
}

// Report is written to sites.json.
type Report struct {
	Dir         string            `json:"dir"`
	Sites       []string          `json:"sites"`              // instrumented map-range sites; index = site id
	Native      []string          `json:"native"`             // map ranges left with Go's native order, with the reason
	GoStmts     int               `json:"go_stmts"`           // rewritten go statements
	GoApprox    int               `json:"go_approx"`          // ... whose arguments are evaluated late
	Unsupported []string          `json:"unsupported"`        // constructs the simulator does not control
	ChanOps     int               `json:"channel_ops"`        // blocking channel operations rewritten to park in the kernel
	DepFiles    []string          `json:"dependency_files"`   // files of dependencies whose os / path/filepath imports were redirected
	DepReplace  map[string]string `json:"dependency_replace"` // module path -> directory of the rewritten copy
	Redirected  []string          `json:"redirected"`         // file: import
	Vars        int               `json:"package_vars"`
	TypeErrors  []string          `json:"type_errors"`
	Files       int               `json:"files"`
	Rewritten   int               `json:"rewritten"`
}

func fatal(a ...any) {
	fmt.Fprintln(os.Stderr, append([]any{"simgen:"}, a...)...)
	os.Exit(2)
}

func main() {
	if len(os.Args) < 3 {
		fatal("usage: simgen <package dir> <out dir>")
	}
	dir, out := os.Args[1], os.Args[2]
	dir, _ = filepath.Abs(dir)
	out, _ = filepath.Abs(out)
	if err := os.MkdirAll(out, 0o755); err != nil {
		fatal(err)
	}
	bp, err := build.Default.ImportDir(dir, 0)
	if err != nil {
		fatal(err)
	}
	fset := token.NewFileSet()
	var files []*ast.File
	names := append([]string(nil), bp.GoFiles...)
	sort.Strings(names)
	for _, n := range names {
		f, err := parser.ParseFile(fset, filepath.Join(dir, n), nil, parser.ParseComments)
		if err != nil {
			fatal(err)
		}
		files = append(files, f)
	}
	rep := &Report{Dir: dir, Files: len(files)}
	info := &types.Info{Types: map[ast.Expr]types.TypeAndValue{}, Defs: map[*ast.Ident]types.Object{}, Uses: map[*ast.Ident]types.Object{}}
	conf := types.Config{Importer: importer.ForCompiler(fset, "source", nil), Error: func(err error) {
		if len(rep.TypeErrors) < 20 {
			rep.TypeErrors = append(rep.TypeErrors, err.Error())
		}
	}}
	pkg, _ := conf.Check(bp.ImportPath, fset, files, info)

	overlay := map[string]string{}
	itCounter := 0
	for fi, f := range files {
		changed := false
		usesRT := false
		fileName := names[fi]
		for _, im := range f.Imports {
			p, _ := strconv.Unquote(im.Path.Value)
			if im.Name != nil && (im.Name.Name == "_" || im.Name.Name == ".") {
				continue
			}
			if r, ok := redirect[p]; ok {
				im.Path.Value = strconv.Quote(r[1])
				if im.Name == nil {
					im.Name = ast.NewIdent(r[0])
				}
				changed = true
				rep.Redirected = append(rep.Redirected, fileName+": "+p)
			}
			if p == "sync/atomic" || p == "C" || p == "unsafe" {
				rep.Unsupported = append(rep.Unsupported, fileName+": import "+p)
			}
		}
		for _, d := range f.Decls {
			fd, ok := d.(*ast.FuncDecl)
			if !ok || fd.Body == nil {
				continue
			}
			fname := funcName(fd)
			n := 0
			goN := 0
			repl := map[ast.Stmt]ast.Stmt{}
			mutated := false
			// statements that are the communication of a select clause keep their meaning
			inComm := map[ast.Node]bool{}
			handled := map[ast.Node]bool{} // channel receives rewritten at statement level
			ast.Inspect(fd.Body, func(node ast.Node) bool {
				if cc, ok := node.(*ast.CommClause); ok && cc.Comm != nil {
					inComm[cc.Comm] = true
					ast.Inspect(cc.Comm, func(n ast.Node) bool {
						if u, ok := n.(*ast.UnaryExpr); ok && u.Op == token.ARROW {
							handled[u] = true
						}
						return true
					})
				}
				return true
			})
			chanN := 0
			chanSite := func(p token.Pos, what string) *ast.BasicLit {
				chanN++
				return &ast.BasicLit{Kind: token.STRING, Value: strconv.Quote(fmt.Sprintf("%s %s", pos(fset, p), what))}
			}
			recvCall := func(u *ast.UnaryExpr, fn string) ast.Expr {
				handled[u] = true
				usesRT = true
				mutated = true
				rep.ChanOps++
				return &ast.CallExpr{Fun: sel("verifsimrt", fn), Args: []ast.Expr{u.X, chanSite(u.Pos(), "channel receive")}}
			}
			ast.Inspect(fd.Body, func(node ast.Node) bool {
				switch s := node.(type) {
				case *ast.ExprStmt:
					if u, ok := s.X.(*ast.UnaryExpr); ok && u.Op == token.ARROW && !inComm[s] {
						s.X = recvCall(u, "Recv")
					}
				case *ast.AssignStmt:
					if len(s.Rhs) == 1 && !inComm[s] {
						if u, ok := s.Rhs[0].(*ast.UnaryExpr); ok && u.Op == token.ARROW {
							if len(s.Lhs) == 2 {
								s.Rhs[0] = recvCall(u, "Recv2")
							} else {
								s.Rhs[0] = recvCall(u, "Recv")
							}
						}
					}
				case *ast.SendStmt:
					if inComm[s] {
						return true
					}
					repl[s] = &ast.ExprStmt{X: &ast.CallExpr{Fun: sel("verifsimrt", "Send"), Args: []ast.Expr{s.Chan, s.Value, chanSite(s.Pos(), "channel send")}}}
					usesRT = true
					rep.ChanOps++
				case *ast.CallExpr:
					if id, ok := s.Fun.(*ast.Ident); ok && id.Name == "close" && len(s.Args) == 1 {
						if _, isBuiltin := info.Uses[id].(*types.Builtin); isBuiltin || info.Uses[id] == nil {
							s.Fun = sel("verifsimrt", "Close")
							s.Args = append(s.Args, chanSite(s.Pos(), "close"))
							usesRT, mutated = true, true
							rep.ChanOps++
						}
					}
				case *ast.SelectorExpr:
					if x, ok := s.X.(*ast.Ident); ok && x.Name == "sync" && (s.Sel.Name == "Cond" || s.Sel.Name == "NewCond") {
						rep.Unsupported = append(rep.Unsupported, pos(fset, s.Pos())+": sync.Cond")
					}
				case *ast.SelectStmt:
					hasDefault := false
					bareContinue := false
					for _, c := range s.Body.List {
						cc := c.(*ast.CommClause)
						if cc.Comm == nil {
							hasDefault = true
						}
						for _, st := range cc.Body {
							if hasBareContinue(st) {
								bareContinue = true
							}
						}
					}
					if hasDefault {
						return true // never blocks
					}
					if bareContinue {
						rep.Unsupported = append(rep.Unsupported, pos(fset, s.Pos())+": select (a clause continues an enclosing loop)")
						return true
					}
					// select { ... } => for { select { ...; default: park; continue }; break }
					s.Body.List = append(s.Body.List, &ast.CommClause{Body: []ast.Stmt{
						&ast.ExprStmt{X: &ast.CallExpr{Fun: sel("verifsimrt", "SelectPark"), Args: []ast.Expr{chanSite(s.Pos(), "select")}}},
						&ast.BranchStmt{Tok: token.CONTINUE},
					}})
					inner := &ast.SelectStmt{Select: s.Select, Body: s.Body}
					repl[s] = &ast.ForStmt{For: s.Pos(), Body: &ast.BlockStmt{List: []ast.Stmt{inner, &ast.BranchStmt{Tok: token.BREAK}}}}
					usesRT = true
					rep.ChanOps++
				case *ast.UnaryExpr:
					if s.Op == token.ARROW && !handled[s] {
						rep.Unsupported = append(rep.Unsupported, pos(fset, s.Pos())+": channel receive")
					}
				case *ast.GoStmt:
					goN++
					name := fmt.Sprintf("go@%s:%s#%d", fileName, fname, goN)
					var fn ast.Expr
					if fl, ok := s.Call.Fun.(*ast.FuncLit); ok && len(s.Call.Args) == 0 {
						fn = fl
					} else {
						rep.GoApprox++
						fn = &ast.FuncLit{Type: &ast.FuncType{Params: &ast.FieldList{}}, Body: &ast.BlockStmt{List: []ast.Stmt{&ast.ExprStmt{X: s.Call}}}}
					}
					repl[s] = &ast.ExprStmt{X: &ast.CallExpr{Fun: sel("verifsimrt", "Go"), Args: []ast.Expr{&ast.BasicLit{Kind: token.STRING, Value: strconv.Quote(name)}, fn}}}
					rep.GoStmts++
					usesRT = true
				case *ast.RangeStmt:
					tv, ok := info.Types[s.X]
					if !ok || tv.Type == nil {
						if isChanRange(info, s) {
							rep.Unsupported = append(rep.Unsupported, pos(fset, s.Pos())+": range over channel")
						}
						return true
					}
					if _, isChan := tv.Type.Underlying().(*types.Chan); isChan {
						if s.Value != nil || (s.Key != nil && s.Tok != token.DEFINE) {
							rep.Unsupported = append(rep.Unsupported, pos(fset, s.Pos())+": range over channel")
							return true
						}
						// for v := range ch {..} => for v, ok := Recv2(ch); ok; v, ok = Recv2(ch) {..}
						itCounter++
						okID := fmt.Sprintf("verifOk%d", itCounter)
						var key ast.Expr = ast.NewIdent("_")
						if s.Key != nil {
							key = s.Key
						}
						call := func() ast.Expr {
							return &ast.CallExpr{Fun: sel("verifsimrt", "Recv2"), Args: []ast.Expr{s.X, chanSite(s.Pos(), "range over channel")}}
						}
						var post ast.Stmt = &ast.AssignStmt{Lhs: []ast.Expr{key, ast.NewIdent(okID)}, Tok: token.ASSIGN, Rhs: []ast.Expr{call()}}
						repl[s] = &ast.ForStmt{For: s.For,
							Init: &ast.AssignStmt{Lhs: []ast.Expr{key, ast.NewIdent(okID)}, Tok: token.DEFINE, Rhs: []ast.Expr{call()}},
							Cond: ast.NewIdent(okID), Post: post, Body: s.Body}
						usesRT = true
						rep.ChanOps++
						return true
					}
					mt, ok := tv.Type.Underlying().(*types.Map)
					if !ok {
						return true
					}
					n++
					site := fmt.Sprintf("%s:%s#%d", fileName, fname, n)
					iterFn := "Iter"
					if b, ok := mt.Key().Underlying().(*types.Basic); !ok || b.Info()&types.IsOrdered == 0 {
						switch mt.Key().Underlying().(type) {
						case *types.Pointer, *types.Struct, *types.Array, *types.Basic:
							// canonical order by a shallow fingerprint of the key's value
							iterFn = "IterAny"
						default:
							rep.Native = append(rep.Native, site+" (key type "+mt.Key().String()+" has no canonical order)")
							return true
						}
					}
					if s.Key == nil && s.Value == nil {
						// `for range m`: order is unobservable
						rep.Native = append(rep.Native, site+" (no loop variables)")
						return true
					}
					if s.Tok != token.DEFINE {
						rep.Native = append(rep.Native, site+" (assigns to existing variables)")
						return true
					}
					keyID, _ := s.Key.(*ast.Ident)
					var valID *ast.Ident
					if s.Value != nil {
						valID, _ = s.Value.(*ast.Ident)
						if valID == nil {
							rep.Native = append(rep.Native, site+" (value is not an identifier)")
							return true
						}
					}
					if keyID == nil {
						rep.Native = append(rep.Native, site+" (key is not an identifier)")
						return true
					}
					if why := captured(info, s.Body, keyID, valID); why != "" {
						rep.Native = append(rep.Native, site+" ("+why+")")
						return true
					}
					itCounter++
					it := fmt.Sprintf("verifIt%d", itCounter)
					var pre []ast.Stmt
					if keyID.Name != "_" {
						pre = append(pre, &ast.AssignStmt{Lhs: []ast.Expr{ast.NewIdent(keyID.Name)}, Tok: token.DEFINE,
							Rhs: []ast.Expr{&ast.CallExpr{Fun: sel(it, "K")}}})
					}
					if valID != nil && valID.Name != "_" {
						pre = append(pre, &ast.AssignStmt{Lhs: []ast.Expr{ast.NewIdent(valID.Name)}, Tok: token.DEFINE,
							Rhs: []ast.Expr{&ast.CallExpr{Fun: sel(it, "V")}}})
					}
					s.Body.List = append(pre, s.Body.List...)
					repl[s] = &ast.ForStmt{
						For: s.For,
						Init: &ast.AssignStmt{Lhs: []ast.Expr{ast.NewIdent(it)}, Tok: token.DEFINE,
							Rhs: []ast.Expr{&ast.CallExpr{Fun: sel("verifsimrt", iterFn), Args: []ast.Expr{s.X, &ast.BasicLit{Kind: token.INT, Value: strconv.Itoa(len(rep.Sites))}}}}},
						Cond: &ast.CallExpr{Fun: sel(it, "Next")},
						Body: s.Body,
					}
					rep.Sites = append(rep.Sites, site)
					usesRT = true
				}
				return true
			})
			if len(repl) == 0 && !mutated {
				continue
			}
			changed = true
			ast.Inspect(fd.Body, func(node ast.Node) bool {
				switch s := node.(type) {
				case *ast.BlockStmt:
					swap(s.List, repl)
				case *ast.CaseClause:
					swap(s.Body, repl)
				case *ast.CommClause:
					swap(s.Body, repl)
				case *ast.LabeledStmt:
					if r, ok := repl[s.Stmt]; ok {
						s.Stmt = r
					}
				}
				return true
			})
		}
		if !changed {
			continue
		}
		if usesRT {
			imp := &ast.ImportSpec{Name: ast.NewIdent("verifsimrt"), Path: &ast.BasicLit{Kind: token.STRING, Value: `"verifsim/sim/simrt"`}}
			f.Decls = append([]ast.Decl{&ast.GenDecl{Tok: token.IMPORT, Specs: []ast.Spec{imp}}}, f.Decls...)
		}
		var buf bytes.Buffer
		if err := format.Node(&buf, fset, f); err != nil {
			fatal(fileName, err)
		}
		p := filepath.Join(out, fileName)
		if err := os.WriteFile(p, buf.Bytes(), 0o644); err != nil {
			fatal(err)
		}
		overlay[filepath.Join(dir, fileName)] = p
		rep.Rewritten++
	}

	// package-state accessor
	var vars []string
	if pkg != nil {
		for _, n := range pkg.Scope().Names() {
			if v, ok := pkg.Scope().Lookup(n).(*types.Var); ok && v.Name() != "_" {
				vars = append(vars, n)
			}
		}
	}
	sort.Strings(vars)
	rep.Vars = len(vars)
	var sb bytes.Buffer
	pkgName := "actionlint"
	if len(files) > 0 {
		pkgName = files[0].Name.Name
	}
	fmt.Fprintf(&sb, "//go:build verif\n\n// Code generated by simgen; DO NOT EDIT.\n\npackage %s\n\n", pkgName)
	sb.WriteString("// VerifPackageVars returns the name of and a pointer to every package-level variable.\nfunc VerifPackageVars() ([]string, []any) {\n\treturn []string{")
	for _, v := range vars {
		fmt.Fprintf(&sb, "%q, ", v)
	}
	sb.WriteString("}, []any{")
	for _, v := range vars {
		fmt.Fprintf(&sb, "&%s, ", v)
	}
	sb.WriteString("}\n}\n")
	statePath := filepath.Join(out, "zz_verif_state.go")
	if err := os.WriteFile(statePath, sb.Bytes(), 0o644); err != nil {
		fatal(err)
	}
	overlay[filepath.Join(dir, "zz_verif_state.go")] = statePath
	// Dependencies that do file-system I/O of their own (further arguments: their source
	// directories): only the imports of os and path/filepath are redirected, so that what they
	// read is the simulated world too.
	for di, dep := range os.Args[3:] {
		// (files of the module cache cannot be overlaid reliably - the go command indexes them - so
		// the dependency is copied and the build uses the copy through a replace directive)
		ents, err := os.ReadDir(dep)
		if err != nil {
			continue
		}
		modPath := ""
		if gm, err := os.ReadFile(filepath.Join(dep, "go.mod")); err == nil {
			for _, l := range strings.Split(string(gm), "\n") {
				if strings.HasPrefix(l, "module ") {
					modPath = strings.TrimSpace(strings.TrimPrefix(l, "module "))
				}
			}
		}
		if modPath == "" {
			continue
		}
		dstDir := filepath.Join(out, fmt.Sprintf("dep%d", di))
		os.MkdirAll(dstDir, 0o755)
		touchedAny := false
		for _, e := range ents {
			n := e.Name()
			if e.IsDir() || strings.HasSuffix(n, "_test.go") {
				continue
			}
			src, err := os.ReadFile(filepath.Join(dep, n))
			if err != nil {
				continue
			}
			if strings.HasSuffix(n, ".go") {
				if df, err := parser.ParseFile(fset, filepath.Join(dep, n), src, parser.ParseComments); err == nil {
					touched := false
					for _, im := range df.Imports {
						ip, _ := strconv.Unquote(im.Path.Value)
						if (ip != "os" && ip != "path/filepath") || (im.Name != nil && (im.Name.Name == "_" || im.Name.Name == ".")) {
							continue
						}
						r := redirect[ip]
						im.Path.Value = strconv.Quote(r[1])
						if im.Name == nil {
							im.Name = ast.NewIdent(r[0])
						}
						touched = true
					}
					if touched {
						var buf bytes.Buffer
						if format.Node(&buf, fset, df) == nil {
							src = buf.Bytes()
							touchedAny = true
							rep.DepFiles = append(rep.DepFiles, filepath.Join(filepath.Base(dep), n))
						}
					}
				}
			}
			if n == "go.mod" || n == "go.sum" || strings.HasSuffix(n, ".go") {
				os.WriteFile(filepath.Join(dstDir, n), src, 0o644)
			}
		}
		if touchedAny {
			if rep.DepReplace == nil {
				rep.DepReplace = map[string]string{}
			}
			rep.DepReplace[modPath] = dstDir
		}
	}
	b, _ := json.MarshalIndent(map[string]any{"Replace": overlay}, "", " ")
	if err := os.WriteFile(filepath.Join(out, "overlay.json"), b, 0o644); err != nil {
		fatal(err)
	}
	sort.Strings(rep.Unsupported)
	rb, _ := json.MarshalIndent(rep, "", " ")
	if err := os.WriteFile(filepath.Join(out, "sites.json"), rb, 0o644); err != nil {
		fatal(err)
	}
	fmt.Fprintf(os.Stderr, "simgen: %d files, %d rewritten, %d map sites instrumented, %d native, %d go stmts, %d package vars, %d type errors\n",
		rep.Files, rep.Rewritten, len(rep.Sites), len(rep.Native), rep.GoStmts, rep.Vars, len(rep.TypeErrors))
}

func isChanRange(info *types.Info, s *ast.RangeStmt) bool { return false }

func swap(list []ast.Stmt, repl map[ast.Stmt]ast.Stmt) {
	for i, st := range list {
		if r, ok := repl[st]; ok {
			list[i] = r
		}
	}
}

func sel(x, name string) ast.Expr {
	return &ast.SelectorExpr{X: ast.NewIdent(x), Sel: ast.NewIdent(name)}
}

func pos(fset *token.FileSet, p token.Pos) string {
	q := fset.Position(p)
	return fmt.Sprintf("%s:%d", filepath.Base(q.Filename), q.Line)
}

// hasBareContinue reports whether st contains a continue without label that is not inside a
// loop of its own.
func hasBareContinue(st ast.Stmt) bool {
	found := false
	ast.Inspect(st, func(n ast.Node) bool {
		switch x := n.(type) {
		case *ast.ForStmt, *ast.RangeStmt, *ast.FuncLit:
			return false
		case *ast.BranchStmt:
			if x.Tok == token.CONTINUE && x.Label == nil {
				found = true
			}
		}
		return true
	})
	return found
}

func funcName(fd *ast.FuncDecl) string {
	name := fd.Name.Name
	if fd.Recv != nil && len(fd.Recv.List) > 0 {
		t := fd.Recv.List[0].Type
		if s, ok := t.(*ast.StarExpr); ok {
			t = s.X
		}
		if ix, ok := t.(*ast.IndexExpr); ok {
			t = ix.X
		}
		if id, ok := t.(*ast.Ident); ok {
			name = id.Name + "." + name
		}
	}
	return name
}

// captured reports why the loop variables cannot be turned into per-iteration
// variables without a possible change of meaning: a closure refers to one of
// them, or its address is taken.
func captured(info *types.Info, body *ast.BlockStmt, key, val *ast.Ident) string {
	objs := map[types.Object]bool{}
	for _, id := range []*ast.Ident{key, val} {
		if id != nil && id.Name != "_" {
			if o := info.Defs[id]; o != nil {
				objs[o] = true
			}
		}
	}
	if len(objs) == 0 {
		return ""
	}
	why := ""
	var inLit int
	var walk func(n ast.Node) bool
	walk = func(n ast.Node) bool {
		switch x := n.(type) {
		case *ast.FuncLit:
			inLit++
			ast.Inspect(x.Body, walk)
			inLit--
			return false
		case *ast.UnaryExpr:
			if x.Op == token.AND {
				if id, ok := x.X.(*ast.Ident); ok && objs[info.Uses[id]] {
					why = "address of loop variable taken"
				}
			}
		case *ast.Ident:
			if inLit > 0 && objs[info.Uses[x]] {
				why = "loop variable captured by a closure"
			}
		}
		return true
	}
	ast.Inspect(body, walk)
	return why
}

var _ = strings.TrimSpace
