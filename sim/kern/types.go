// Package kern is the deterministic simulation kernel used to run actionlint
// (and harness client tasks) under a seeded scheduler. Exactly one task runs at
// any instant; every synchronisation, disk, process and clock operation of the
// code under test enters the kernel through a facade package (sim/sim*), which
// applies it to the kernel's model and then decides who runs next from the
// choice source. See DESIGN.md section 3.
package kern

import (
	"fmt"
	"strings"
	"time"
)

// Op is a kernel operation code.
type Op uint8

const (
	OpSpawn Op = iota + 1
	OpExit
	OpYield
	OpLock
	OpUnlock
	OpRLock
	OpRUnlock
	OpWGAdd
	OpWGWait
	OpSemAcq
	OpSemTry
	OpSemRel
	OpReadFile
	OpStat
	OpReadDir
	OpWriteFile
	OpGetwd
	OpNumCPU
	OpNow
	OpSleep
	OpLookPath
	OpProcStart
	OpProcStdin
	OpProcWait
	OpNote
	OpBlockForever
	OpEvalSymlinks
	OpReadlink
	OpProcKill
	OpPipeOpen // a pipe to a process that is about to be started: descriptors are a bounded resource
	OpPoll     // a blocking channel operation found its channel not ready: park until another task made progress
	opMax
)

var opNames = [...]string{
	OpSpawn: "spawn", OpExit: "exit", OpYield: "yield", OpLock: "lock", OpUnlock: "unlock",
	OpRLock: "rlock", OpRUnlock: "runlock", OpWGAdd: "wgadd", OpWGWait: "wgwait",
	OpSemAcq: "semacq", OpSemTry: "semtry", OpSemRel: "semrel", OpReadFile: "readfile",
	OpStat: "stat", OpReadDir: "readdir", OpWriteFile: "writefile", OpGetwd: "getwd",
	OpNumCPU: "numcpu", OpNow: "now", OpSleep: "sleep", OpLookPath: "lookpath",
	OpProcStart: "procstart", OpProcStdin: "procstdin", OpProcWait: "procwait",
	OpNote: "note", OpBlockForever: "blockforever", OpEvalSymlinks: "evalsymlinks", OpReadlink: "readlink",
	OpPoll: "chanwait", OpProcKill: "prockill", OpPipeOpen: "pipeopen",
}

func (o Op) String() string {
	if int(o) < len(opNames) && opNames[o] != "" {
		return opNames[o]
	}
	return fmt.Sprintf("op%d", int(o))
}

// Req is a request from a task to the kernel. Everything is passed by value
// (strings and byte slices are copied at the boundary in the pipe transport).
type Req struct {
	Op   Op
	Obj  uint64 // identity of the primitive (a per-process unique id stored in the facade object; never an address, which the allocator may reuse)
	A, B int64
	S    string
	Data []byte
	Strs []string
}

// Rep is the kernel's reply.
type Rep struct {
	Status int64 // 0 ok; otherwise an errno or a kernel status code
	A, B   int64
	S      string
	Data   []byte
	Strs   []string
}

// Kernel status codes (beyond errno values, which are < 4096).
const (
	StPanicNegativeWG   = 10001
	StPanicUnlock       = 10002
	StPanicRUnlock      = 10003
	StPanicSemRelease   = 10004
	StPanicWGReuse      = 10005
	StNotStarted        = 10006
	StAlreadyWaited     = 10007
	StClosedPipe        = 10008
	StPanicAddWhileWait = 10009
)

// Choice is one recorded decision.
type Choice struct {
	L string `json:"l"` // label; its class is the part before the first '.'
	N int    `json:"n"` // number of alternatives
	V int    `json:"v"` // the alternative taken, in [0,N)
}

// Source answers choices. Value 0 is always the "simplest" alternative
// (continue the current task, identity map order, no fault, smallest world).
type Source interface {
	Choose(label string, n int) int
}

// ChooserFrom is implemented by sources that want to know which values of a
// choice are meaningful at this point (a generating source draws among them).
type ChooserFrom interface {
	ChooseFrom(label string, n int, valid []int) int
}

// Class returns the class of a choice label.
func Class(label string) string {
	if i := strings.IndexByte(label, '.'); i >= 0 {
		return label[:i]
	}
	return label
}

// Zero is the source that always answers 0 (the canonical run).
type Zero struct{}

func (Zero) Choose(string, int) int { return 0 }

// PanicInfo describes a panic that escaped a task of the system under test.
type PanicInfo struct {
	Task  int
	Name  string
	Value string
	Stack string
}

// HistEvent is a history note stamped with the global event sequence number.
type HistEvent struct {
	Seq    int
	Task   int
	Name   string
	Detail string
}

// Invocation records one simulated external process.
type Invocation struct {
	Pid       int
	Task      int
	Argv      []string
	Stdin     string
	Combined  bool
	StartSeq  int
	EndSeq    int // 0 while running
	StartTime time.Duration
	EndTime   time.Duration
	StartErr  int64 // errno when the process could not be started
	Result    ToolResult
	Waited    bool
}

// ToolResult is what a simulated tool does with an invocation.
type ToolResult struct {
	Stdout   []byte
	Stderr   []byte
	ExitCode int  // ignored when Signaled
	Signaled bool // terminated by a signal: ExitCode() reports -1
}

// ToolModel decides the behaviour of simulated external programs. It must be a
// pure function of its arguments (so that outcomes do not depend on the
// schedule); latency is drawn by the kernel from the choice source.
type ToolModel interface {
	// LookPath resolves an executable name; ok=false means "not found".
	LookPath(name string) (path string, ok bool)
	// CanStart returns a non-zero errno when starting argv must fail.
	CanStart(argv []string, stdin string) int64
	// Run returns output and exit status of a started process.
	Run(argv []string, stdin string) ToolResult
}

// Latencies are the simulated tool run times the kernel chooses from.
var Latencies = []time.Duration{0, time.Millisecond, 10 * time.Millisecond, time.Second, time.Hour}

// Result is what a simulated run produced, apart from the values the root
// function itself returned to the harness.
type Result struct {
	Steps        int
	TraceHash    uint64
	Trace        []string
	Deadlock     string
	Panic        *PanicInfo
	Budget       bool
	Tasks        int
	MaxOpenPipes int // most stdin pipes open at once
	MaxRunnable  int // most tasks simultaneously runnable at a scheduling point
	SchedPoints  int // scheduling points with >= 2 alternatives
	Switches     int // scheduling points where a non-default alternative was taken

	RootReturned      bool
	LiveAtRootReturn  int // tasks other than root not yet finished when root returned
	ProcsAtRootReturn int // simulated processes still running when root returned
	StepsAfterRoot    int
	// OpsAfterRoot lists (the first few) operations other tasks performed after the root
	// function had returned, apart from their exit: work that the root did not collect.
	OpsAfterRoot      []string
	WorkAfterRoot     int
	MaxProcs          int // most simulated processes running at once
	ProcBoundViolated string

	Invocations []*Invocation
	FaultsFired map[string]int
	FaultHits   map[int]int // index into Config.Faults -> times it fired
	IOOps       int
	SimTime     time.Duration
	Probes      map[string]int
	History     []HistEvent
	Unsupported []string
	Written     map[string][]byte // files written through the facade
}

// Failed reports whether the run itself ended abnormally.
func (r *Result) Failed() bool { return r.Deadlock != "" || r.Panic != nil || r.Budget }
