package kern

import (
	"container/heap"
	"fmt"
	"strings"
	"syscall"
)

func (k *Kernel) doLookPath(t *task, r *Req) {
	if k.cfg.Tools == nil {
		t.pending = Rep{Status: int64(syscall.ENOENT)}
	} else if p, ok := k.cfg.Tools.LookPath(r.S); ok {
		t.pending = Rep{S: p}
	} else {
		t.pending = Rep{Status: int64(syscall.ENOENT)}
	}
	k.trace(t, r.Op, fmt.Sprintf("%s st=%d", r.S, t.pending.Status))
}

// doProcStart: Strs = argv, Data = stdin written so far, A&1 = stdin already
// closed (or no stdin pipe), A&2 = combined output. Reply A = pid.
func (k *Kernel) doProcStart(t *task, r *Req) {
	inv := &Invocation{Pid: len(k.procs) + 1, Task: t.id, Argv: append([]string(nil), r.Strs...),
		Combined: r.A&2 != 0, StartSeq: k.res.Steps, StartTime: k.now}
	p := &proc{inv: inv, stdin: append([]byte(nil), r.Data...), closed: r.A&1 != 0, hasPipe: r.A&4 != 0}
	k.procs = append(k.procs, p)
	inv.Stdin = string(p.stdin)
	if k.cfg.Tools == nil {
		inv.StartErr = int64(syscall.ENOENT)
	} else {
		inv.StartErr = k.cfg.Tools.CanStart(inv.Argv, inv.Stdin)
	}
	if inv.StartErr != 0 {
		inv.EndSeq = k.res.Steps
		p.exited = true
		if p.hasPipe && k.openPipes > 0 {
			k.openPipes--
		}
		t.pending = Rep{Status: inv.StartErr, A: int64(inv.Pid)}
		k.trace(t, r.Op, fmt.Sprintf("p%d %s cannot start errno=%d", inv.Pid, strings.Join(inv.Argv, " "), inv.StartErr))
		return
	}
	p.started = true
	if ee, ok := k.cfg.Tools.(interface{ ExitsEarly(argv []string) bool }); ok && !p.closed && ee.ExitsEarly(inv.Argv) {
		// a tool (a wrapper script, a partial reader) that answers from what is in the pipe when it
		// starts and exits without waiting for the end of its input: later writes meet a closed pipe
		p.closed = true
		k.probe("tool_exits_before_reading_all_input")
	}
	k.running++
	if k.running > k.res.MaxProcs {
		k.res.MaxProcs = k.running
	}
	if k.running > k.cfg.CPUs && k.res.ProcBoundViolated == "" {
		k.res.ProcBoundViolated = fmt.Sprintf("step %d: %d simulated processes running, machine has %d CPUs", k.res.Steps, k.running, k.cfg.CPUs)
	}
	if k.running == k.cfg.CPUs {
		k.probe("procs_at_cpu_bound")
	}
	k.trace(t, r.Op, fmt.Sprintf("p%d %s running=%d", inv.Pid, strings.Join(inv.Argv, " "), k.running))
	t.pending = Rep{A: int64(inv.Pid)}
	if p.closed {
		k.scheduleExit(p)
	}
}

func (k *Kernel) scheduleExit(p *proc) {
	if p.scheduled {
		return
	}
	p.scheduled = true
	p.inv.Stdin = string(p.stdin)
	if !p.killed {
		p.inv.Result = k.cfg.Tools.Run(p.inv.Argv, p.inv.Stdin)
	}
	li := 0
	if !k.cfg.NoPreempt {
		li = k.src.Choose("lat", len(Latencies))
	}
	k.evSeq++
	heap.Push(&k.events, event{at: k.now + Latencies[li], seq: k.evSeq, pid: p.inv.Pid})
}

// doProcStdin: A = pid, Data = bytes, B = 1 to close.
func (k *Kernel) doProcStdin(t *task, r *Req) {
	p := k.procs[r.A-1]
	k.trace(t, r.Op, fmt.Sprintf("p%d n=%d close=%d", r.A, len(r.Data), r.B))
	if p.exited {
		t.pending = Rep{Status: int64(syscall.EPIPE)}
		return
	}
	p.stdin = append(p.stdin, r.Data...)
	if r.B == 1 {
		p.closed = true
		if p.started {
			k.scheduleExit(p)
		}
	}
}

// doProcKill: A = pid. A running process dies at once (killed by a signal, whatever it had
// written is lost); a process that has exited already is not affected.
func (k *Kernel) doProcKill(t *task, r *Req) {
	if r.A < 1 || int(r.A) > len(k.procs) {
		t.pending = Rep{Status: int64(syscall.ESRCH)}
		return
	}
	p := k.procs[r.A-1]
	k.trace(t, r.Op, fmt.Sprintf("p%d exited=%v", r.A, p.exited))
	if !p.started || p.exited {
		t.pending = Rep{Status: int64(syscall.ESRCH)}
		return
	}
	p.killed = true
	p.inv.Result = ToolResult{Signaled: true}
	k.procExit(int(r.A))
}

func (k *Kernel) procExit(pid int) {
	p := k.procs[pid-1]
	if p.exited {
		return // (killed earlier; this is its scheduled exit)
	}
	p.exited = true
	if p.hasPipe && k.openPipes > 0 {
		k.openPipes--
	}
	p.inv.EndSeq = k.res.Steps
	p.inv.EndTime = k.now
	k.running--
	k.trace(nil, OpProcWait, fmt.Sprintf("p%d exits at %v running=%d", pid, k.now, k.running))
	if p.waiter != 0 {
		k.wake(p.waiter, k.waitReply(p))
		p.waiter = 0
	}
}

func (k *Kernel) waitReply(p *proc) Rep {
	p.inv.Waited = true
	res := p.inv.Result
	rep := Rep{A: int64(res.ExitCode), Data: res.Stdout, S: string(res.Stderr)}
	if res.Signaled {
		rep.A, rep.B = -1, 1
	}
	return rep
}

// doProcWait: A = pid. Blocks until the process has exited.
func (k *Kernel) doProcWait(t *task, r *Req) {
	p := k.procs[r.A-1]
	k.trace(t, r.Op, fmt.Sprintf("p%d exited=%v", r.A, p.exited))
	if !p.started {
		t.pending = Rep{Status: StNotStarted}
		return
	}
	if p.inv.Waited {
		t.pending = Rep{Status: StAlreadyWaited}
		return
	}
	if p.exited {
		t.pending = k.waitReply(p)
		return
	}
	p.waiter = t.id
	k.block(t, r.Op, 0)
}
