//go:build race

package kern

import (
	"encoding/binary"
	"fmt"
	"runtime"
	"runtime/debug"
	"syscall"
	"unsafe"
)

// Pipe transport (race lane). The kernel is the goroutine that called Run; it
// owns all simulator state. Tasks talk to it strictly by value over raw
// pipes: the request/reply bytes and the park/release baton are read(2) and
// write(2) system calls issued through syscall.Syscall, which carry no race
// annotations. Serialising the tasks therefore adds NO happens-before edge in
// the race detector's view; the only synchronisation it sees is that of the
// shadow real primitives the facades drive. The few words tasks read directly
// (current task handle, abort flag, cwd) are touched only from //go:norace
// helpers.

// RaceLane reports whether this binary uses the race-detector transport.
const RaceLane = true

// ---- raw pipe I/O (no race annotations) ----

func rawRead(fd int, b []byte) bool {
	for len(b) > 0 {
		n, _, e := syscall.Syscall(syscall.SYS_READ, uintptr(fd), uintptr(unsafe.Pointer(&b[0])), uintptr(len(b)))
		if e == syscall.EINTR || e == syscall.EAGAIN {
			continue
		}
		if e != 0 || n == 0 {
			return false
		}
		b = b[n:]
	}
	return true
}

func rawWrite(fd int, b []byte) {
	for len(b) > 0 {
		n, _, e := syscall.Syscall(syscall.SYS_WRITE, uintptr(fd), uintptr(unsafe.Pointer(&b[0])), uintptr(len(b)))
		if e == syscall.EINTR || e == syscall.EAGAIN {
			continue
		}
		if e != 0 {
			panic(fmt.Sprint("kern: rawWrite ", e))
		}
		b = b[n:]
	}
}

func mkpipe() (r, w int) {
	var p [2]int
	if err := syscall.Pipe2(p[:], syscall.O_CLOEXEC); err != nil {
		panic(err)
	}
	return p[0], p[1]
}

// ---- wire format ----

func putStr(b []byte, s string) []byte {
	b = binary.LittleEndian.AppendUint32(b, uint32(len(s)))
	return append(b, s...)
}

func encodeMsg(op Op, obj uint64, a, b int64, s string, data []byte, strs []string, flag byte) []byte {
	buf := make([]byte, 4, 64+len(s)+len(data))
	buf = append(buf, byte(op), flag)
	buf = binary.LittleEndian.AppendUint64(buf, obj)
	buf = binary.LittleEndian.AppendUint64(buf, uint64(a))
	buf = binary.LittleEndian.AppendUint64(buf, uint64(b))
	buf = putStr(buf, s)
	buf = binary.LittleEndian.AppendUint32(buf, uint32(len(data)))
	buf = append(buf, data...)
	if data == nil {
		buf = append(buf, 0)
	} else {
		buf = append(buf, 1)
	}
	buf = binary.LittleEndian.AppendUint32(buf, uint32(len(strs)))
	for _, x := range strs {
		buf = putStr(buf, x)
	}
	binary.LittleEndian.PutUint32(buf[0:], uint32(len(buf)-4))
	return buf
}

type wireMsg struct {
	op   Op
	flag byte
	obj  uint64
	a, b int64
	s    string
	data []byte
	strs []string
}

func readMsg(fd int) (wireMsg, bool) {
	var h [4]byte
	if !rawRead(fd, h[:]) {
		return wireMsg{}, false
	}
	n := binary.LittleEndian.Uint32(h[:])
	buf := make([]byte, n)
	if n > 0 && !rawRead(fd, buf) {
		return wireMsg{}, false
	}
	var m wireMsg
	m.op, m.flag = Op(buf[0]), buf[1]
	p := 2
	m.obj = binary.LittleEndian.Uint64(buf[p:])
	p += 8
	m.a = int64(binary.LittleEndian.Uint64(buf[p:]))
	p += 8
	m.b = int64(binary.LittleEndian.Uint64(buf[p:]))
	p += 8
	getStr := func() string {
		l := int(binary.LittleEndian.Uint32(buf[p:]))
		p += 4
		s := string(buf[p : p+l])
		p += l
		return s
	}
	m.s = getStr()
	l := int(binary.LittleEndian.Uint32(buf[p:]))
	p += 4
	d := buf[p : p+l]
	p += l
	if buf[p] == 1 {
		m.data = append([]byte{}, d...)
	}
	p++
	ns := int(binary.LittleEndian.Uint32(buf[p:]))
	p += 4
	for i := 0; i < ns; i++ {
		m.strs = append(m.strs, getStr())
	}
	return m, true
}

// ---- task side ----

type transportTask struct {
	gateR, gateW int
	done         chan struct{} // closed by the task's goroutine at its very end (visible edge task -> harness)
}

// current task handle: written by the kernel goroutine before it releases a
// task, read by that task. Plain words, norace helpers only.
var (
	curID    int64
	curGate  int
	kwFD     int
	isActive bool
	isAbort  bool
	curCwd   string
	curEpoch int64
)

// EpochNano returns the wall-clock instant (Unix nanoseconds) of simulated time zero.
//
//go:norace
func EpochNano() int64 { return curEpoch }

//go:norace
func setEpoch(e int64) { curEpoch = e }

//go:norace
func setCur(id int, gate int) { curID, curGate = int64(id), gate }

//go:norace
func getCur() (int64, int) { return curID, curGate }

//go:norace
func getKW() int { return kwFD }

//go:norace
func setRun(active bool, kw int, cwd string) {
	isActive, kwFD, curCwd, isAbort = active, kw, cwd, false
}

//go:norace
func setAbort() { isAbort = true }

// Active reports whether a simulated run is in progress.
//
//go:norace
func Active() bool { return isActive }

// Aborting reports whether the current run is being unwound.
//
//go:norace
func Aborting() bool { return isActive && isAbort }

// Cwd returns the virtual working directory of the run in progress.
//
//go:norace
func Cwd() string { return curCwd }

const (
	flagAbort  = 1
	opPanic    = Op(200)
	opRootRet  = Op(201)
	opTaskExit = Op(202)
)

// Call performs a kernel operation on behalf of the running task.
func Call(r Req) Rep {
	if !Active() {
		panic("kern.Call outside a simulated run")
	}
	if Aborting() {
		return Rep{}
	}
	id, gate := getCur()
	_ = id
	rawWrite(getKW(), encodeMsg(r.Op, r.Obj, r.A, r.B, r.S, r.Data, r.Strs, 0))
	m, ok := readMsg(gate)
	if !ok || m.flag&flagAbort != 0 {
		runtime.Goexit()
	}
	return Rep{Status: int64(m.obj), A: m.a, B: m.b, S: m.s, Data: m.data, Strs: m.strs}
}

// Go starts f as a new task. The child's pipe and goroutine are created by the
// calling task (so the real spawn edge exists) before the kernel is told about it.
func Go(name string, f func()) {
	if !Active() {
		go f()
		return
	}
	if Aborting() {
		return
	}
	r, w := mkpipe()
	done := make(chan struct{})
	registerDone(done)
	go taskMain(r, f, false, done)
	Call(Req{Op: OpSpawn, A: int64(r), B: int64(w), S: name})
}

var pendingDone []chan struct{}

//go:norace
func registerDone(c chan struct{}) { pendingDone = append(pendingDone, c) }

//go:norace
func takeDone() []chan struct{} { d := pendingDone; pendingDone = nil; return d }

func taskMain(gate int, f func(), root bool, done chan struct{}) {
	defer close(done)
	defer func() {
		if r := recover(); r != nil {
			rawWrite(getKW(), encodeMsg(opPanic, 0, 0, 0, fmt.Sprint(r), debug.Stack(), nil, 0))
			// the kernel answers with the abort of this task
			readMsg(gate)
		}
		rawWrite(getKW(), encodeMsg(opTaskExit, 0, 0, 0, "", nil, nil, 0))
	}()
	m, ok := readMsg(gate)
	if !ok || m.flag&flagAbort != 0 {
		return
	}
	f()
	if root && !Aborting() {
		rawWrite(getKW(), encodeMsg(opRootRet, 0, 0, 0, "", nil, nil, 0))
		readMsg(gate)
	}
}

// ---- kernel side ----

func (k *Kernel) release(t *task) {
	setCur(t.id, t.tr.gateR)
	rep := t.pending
	t.pending = Rep{}
	rawWrite(t.tr.gateW, encodeMsg(0, uint64(rep.Status), rep.A, rep.B, rep.S, rep.Data, rep.Strs, 0))
}

// abortAll unwinds every task that is still alive, one at a time.
func (k *Kernel) abortAll(kr int) {
	k.aborting = true
	setAbort()
	for _, t := range k.tasks {
		if t.state == tDead {
			continue
		}
		t.state = tDead
		setCur(t.id, t.tr.gateR)
		rawWrite(t.tr.gateW, encodeMsg(0, 0, 0, 0, "", nil, nil, flagAbort))
		// wait for its exit message (its deferred calls run; facade operations are no-ops now)
		for {
			m, ok := readMsg(kr)
			if !ok || m.op == opTaskExit {
				break
			}
			if m.op == opPanic {
				// a panic while unwinding: let the task finish
				rawWrite(t.tr.gateW, encodeMsg(0, 0, 0, 0, "", nil, nil, flagAbort))
			}
		}
	}
}

// Run executes root as the first task of a fresh kernel and returns when every
// task has finished (or the run was aborted).
func Run(cfg Config, root func()) *Result {
	if Active() {
		panic("kern.Run: nested run")
	}
	k := newKernel(cfg)
	kr, kw := mkpipe()
	setRun(true, kw, k.cfg.Cwd)
	setEpoch(k.cfg.Epoch.UnixNano())
	rt := k.newTask("root")
	rt.tr.gateR, rt.tr.gateW = mkpipe()
	rt.tr.done = make(chan struct{})
	k.root = rt
	k.cur = rt
	dones := []chan struct{}{rt.tr.done}
	go taskMain(rt.tr.gateR, root, true, rt.tr.done)
	cur := rt
	k.release(cur)
loop:
	for {
		m, ok := readMsg(kr)
		if !ok {
			panic("kern: request pipe closed")
		}
		switch m.op {
		case opPanic:
			if k.res.Panic == nil {
				k.res.Panic = &PanicInfo{Task: cur.id, Name: cur.name, Value: m.s, Stack: string(m.data)}
			}
			cur.state = tDead
			k.aborting = true
			setAbort()
			rawWrite(cur.tr.gateW, encodeMsg(0, 0, 0, 0, "", nil, nil, flagAbort))
			// its exit message follows
			for {
				x, ok := readMsg(kr)
				if !ok || x.op == opTaskExit {
					break
				}
			}
			k.abortAll(kr)
			break loop
		case opRootRet:
			k.noteRootReturn()
			rawWrite(cur.tr.gateW, encodeMsg(0, 0, 0, 0, "", nil, nil, 0))
			continue
		case opTaskExit:
			k.countStep()
			r := Req{Op: OpExit}
			k.handle(cur, &r)
		default:
			if !k.countStep() {
				k.abortAll(kr)
				break loop
			}
			r := Req{Op: m.op, Obj: m.obj, A: m.a, B: m.b, S: m.s, Data: m.data, Strs: m.strs}
			if m.op == OpSpawn {
				c := k.newTask(m.s)
				c.tr.gateR, c.tr.gateW = int(m.a), int(m.b)
				r.A = int64(c.id)
			}
			k.handle(cur, &r)
		}
		next := k.schedule()
		if k.aborting {
			k.abortAll(kr)
			break loop
		}
		if next == nil {
			break loop
		}
		cur = next
		k.release(cur)
	}
	dones = append(dones, takeDone()...)
	for _, d := range dones {
		<-d
	}
	setRun(false, 0, "")
	syscall.Close(kr)
	syscall.Close(kw)
	for _, t := range k.tasks {
		syscall.Close(t.tr.gateR)
		syscall.Close(t.tr.gateW)
	}
	return k.finish()
}

var nextObj uint64

// ObjID returns the identity of a facade object, assigning one on first use.
//
//go:norace
func ObjID(p *uint64) uint64 {
	if *p == 0 {
		nextObj++
		*p = nextObj
	}
	return *p
}
