package kern_test

import (
	"context"
	"io/fs"
	"strings"
	"syscall"
	"testing"

	"verifsim/sim/kern"
	"verifsim/sim/simerrgroup"
	"verifsim/sim/simexec"
	"verifsim/sim/simos"
	"verifsim/sim/simsemaphore"
	"verifsim/sim/simsync"
)

// Self-tests of the simulator's own models (the trusted stubs): they run in
// both builds (`go test ./sim/...` and `go test -race ./sim/...`).

type seq struct {
	vals []int
	i    int
}

func (s *seq) Choose(label string, n int) int {
	if s.i >= len(s.vals) {
		return 0
	}
	v := s.vals[s.i] % n
	s.i++
	return v
}

type lcg struct{ x uint64 }

func (l *lcg) Choose(label string, n int) int {
	l.x = l.x*6364136223846793005 + 1442695040888963407
	return int((l.x >> 33) % uint64(n))
}

func TestMutexExclusionAndAllOrders(t *testing.T) {
	orders := map[string]bool{}
	for seed := uint64(1); seed < 200; seed++ {
		var mu simsync.Mutex
		var wg simsync.WaitGroup
		inside := 0
		var order []byte
		res := kern.Run(kern.Config{Src: &lcg{seed}}, func() {
			for i := 0; i < 3; i++ {
				i := i
				wg.Add(1)
				kern.Go("w", func() {
					defer wg.Done()
					mu.Lock()
					inside++
					if inside != 1 {
						t.Errorf("two tasks inside the critical section")
					}
					order = append(order, byte('a'+i))
					kern.Call(kern.Req{Op: kern.OpYield})
					inside--
					mu.Unlock()
				})
			}
			wg.Wait()
		})
		if res.Failed() {
			t.Fatalf("seed %d: %+v", seed, res)
		}
		orders[string(order)] = true
	}
	if len(orders) != 6 {
		t.Fatalf("expected all 6 acquisition orders of 3 tasks to be reachable, got %d: %v", len(orders), orders)
	}
}

func TestDeadlockDetected(t *testing.T) {
	var a, b simsync.Mutex
	var wg simsync.WaitGroup
	found := false
	for seed := uint64(1); seed < 100 && !found; seed++ {
		res := kern.Run(kern.Config{Src: &lcg{seed}}, func() {
			wg.Add(2)
			kern.Go("ab", func() {
				defer wg.Done()
				a.Lock()
				kern.Call(kern.Req{Op: kern.OpYield})
				b.Lock()
				b.Unlock()
				a.Unlock()
			})
			kern.Go("ba", func() {
				defer wg.Done()
				b.Lock()
				kern.Call(kern.Req{Op: kern.OpYield})
				a.Lock()
				a.Unlock()
				b.Unlock()
			})
			wg.Wait()
		})
		if res.Deadlock != "" {
			found = true
			if !strings.Contains(res.Deadlock, "lock") {
				t.Fatalf("deadlock description: %q", res.Deadlock)
			}
		}
	}
	if !found {
		t.Fatal("the lock-order deadlock was never reached in 100 seeds")
	}
	// the kernel is usable again after an aborted run
	res := kern.Run(kern.Config{}, func() {})
	if res.Failed() {
		t.Fatalf("run after an aborted run failed: %+v", res)
	}
}

func TestSemaphoreFIFOAndBound(t *testing.T) {
	for seed := uint64(1); seed < 100; seed++ {
		sem := simsemaphore.NewWeighted(2)
		var wg simsync.WaitGroup
		var mu simsync.Mutex // the counters are shared by up to two holders
		held, maxHeld := 0, 0
		res := kern.Run(kern.Config{Src: &lcg{seed}}, func() {
			for i := 0; i < 5; i++ {
				wg.Add(1)
				kern.Go("w", func() {
					defer wg.Done()
					sem.Acquire(context.Background(), 1)
					mu.Lock()
					held++
					if held > maxHeld {
						maxHeld = held
					}
					mu.Unlock()
					kern.Call(kern.Req{Op: kern.OpYield})
					mu.Lock()
					held--
					mu.Unlock()
					sem.Release(1)
				})
			}
			wg.Wait()
		})
		if res.Failed() || maxHeld > 2 {
			t.Fatalf("seed %d: failed=%v maxHeld=%d", seed, res.Failed(), maxHeld)
		}
	}
}

func TestWaitGroupNegativePanicsLikeSync(t *testing.T) {
	res := kern.Run(kern.Config{}, func() {
		var wg simsync.WaitGroup
		wg.Done()
	})
	if res.Panic == nil || !strings.Contains(res.Panic.Value, "negative WaitGroup counter") {
		t.Fatalf("expected the sync panic, got %+v", res.Panic)
	}
}

func TestErrgroupFirstError(t *testing.T) {
	var err error
	res := kern.Run(kern.Config{Src: &lcg{7}}, func() {
		var g simerrgroup.Group
		for i := 0; i < 4; i++ {
			i := i
			g.Go(func() error {
				if i%2 == 1 {
					return syscall.Errno(i)
				}
				return nil
			})
		}
		err = g.Wait()
	})
	if res.Failed() || err == nil {
		t.Fatalf("failed=%v err=%v", res.Failed(), err)
	}
}

func TestDiskFaultsAndSymlinks(t *testing.T) {
	d := kern.NewDisk()
	d.Put("/r/a.txt", []byte("0123456789"))
	d.Symlink("/r/link.txt", "a.txt")
	d.Symlink("/r/loop", "loop")
	var got, viaLink []byte
	var errEIO, errLoop error
	var linkIsLink bool
	res := kern.Run(kern.Config{Disk: d, Cwd: "/r", Faults: []kern.Fault{
		{Kind: kern.FTorn, Path: "/r/a.txt", Nth: 1, Off: 4},
		{Kind: kern.FReadEIO, Path: "/r/a.txt", Nth: 3},
	}}, func() {
		got, _ = simos.ReadFile("a.txt")        // 1st access: torn at 4
		viaLink, _ = simos.ReadFile("link.txt") // 2nd access of the file (through the link): intact
		_, errEIO = simos.ReadFile("/r/a.txt")  // 3rd access: EIO
		_, errLoop = simos.ReadFile("/r/loop")  // ELOOP
		fi, _ := simos.Lstat("link.txt")
		linkIsLink = fi != nil && fi.Mode()&fs.ModeSymlink != 0
	})
	if res.Failed() {
		t.Fatalf("%+v", res)
	}
	if string(got) != "0123" || string(viaLink) != "0123456789" {
		t.Fatalf("torn=%q viaLink=%q", got, viaLink)
	}
	if errEIO == nil || !strings.Contains(errEIO.Error(), "input/output error") {
		t.Fatalf("errEIO=%v", errEIO)
	}
	if errLoop == nil || !strings.Contains(errLoop.Error(), "too many levels of symbolic links") {
		t.Fatalf("errLoop=%v", errLoop)
	}
	if !linkIsLink {
		t.Fatal("Lstat of a symbolic link does not report ModeSymlink")
	}
	if res.FaultsFired[kern.FTorn] != 1 || res.FaultsFired[kern.FReadEIO] != 1 {
		t.Fatalf("fired: %v", res.FaultsFired)
	}
}

type echoTool struct{}

func (echoTool) LookPath(name string) (string, bool)        { return "/bin/" + name, name == "tool" }
func (echoTool) CanStart(argv []string, stdin string) int64 { return 0 }
func (echoTool) Run(argv []string, stdin string) kern.ToolResult {
	return kern.ToolResult{Stdout: []byte("out:" + stdin), Stderr: []byte("err"), ExitCode: 3}
}

func TestSimulatedProcessContract(t *testing.T) {
	var out []byte
	var err error
	var running int
	res := kern.Run(kern.Config{Src: &lcg{3}, Tools: echoTool{}, CPUs: 1}, func() {
		p, lerr := simexec.LookPath("tool")
		if lerr != nil {
			t.Errorf("LookPath: %v", lerr)
		}
		cmd := simexec.Command(p, "-x")
		w, _ := cmd.StdinPipe()
		w.Write([]byte("hello")) // before Start, as actionlint does
		w.Close()
		out, err = cmd.Output()
	})
	running = res.MaxProcs
	if res.Failed() {
		t.Fatalf("%+v", res)
	}
	ee, ok := err.(*simexec.ExitError)
	if !ok || ee.ExitCode() != 3 || string(ee.Stderr) != "err" || string(out) != "out:hello" {
		t.Fatalf("out=%q err=%#v", out, err)
	}
	if running != 1 || len(res.Invocations) != 1 || !res.Invocations[0].Waited {
		t.Fatalf("process table: max=%d inv=%+v", running, res.Invocations)
	}
}

func TestStdinNotClosedIsADeadlock(t *testing.T) {
	res := kern.Run(kern.Config{Tools: echoTool{}}, func() {
		cmd := simexec.Command("/bin/tool")
		w, _ := cmd.StdinPipe()
		w.Write([]byte("x"))
		// no Close: a tool that reads stdin to EOF never exits
		cmd.Output()
	})
	if res.Deadlock == "" {
		t.Fatalf("expected a deadlock, got %+v", res)
	}
}
