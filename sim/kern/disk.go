package kern

import (
	"sort"
	"strings"
	"syscall"
)

// Disk is the virtual file system: absolute, cleaned, slash-separated paths.
type Disk struct {
	Files map[string][]byte
	Dirs  map[string]bool
	Links map[string]string // symbolic links: path -> target (absolute, or relative to the link's directory)
	// Pipes marks files that are named pipes (or /dev/fd entries of a process substitution): they
	// deliver their content when read, but stat reports size 0 and the mode of a pipe.
	Pipes map[string]bool
}

// NewDisk returns an empty disk containing only "/".
func NewDisk() *Disk {
	return &Disk{Files: map[string][]byte{}, Dirs: map[string]bool{"/": true}}
}

// Clone returns a deep copy (file contents are shared; they are never mutated in place).
func (d *Disk) Clone() *Disk {
	n := &Disk{Files: make(map[string][]byte, len(d.Files)), Dirs: make(map[string]bool, len(d.Dirs))}
	for k, v := range d.Files {
		n.Files[k] = v
	}
	if d.Links != nil {
		n.Links = make(map[string]string, len(d.Links))
		for k, v := range d.Links {
			n.Links[k] = v
		}
	}
	for k := range d.Dirs {
		n.Dirs[k] = true
	}
	if d.Pipes != nil {
		n.Pipes = make(map[string]bool, len(d.Pipes))
		for k := range d.Pipes {
			n.Pipes[k] = true
		}
	}
	return n
}

// MkdirAll creates a directory and its ancestors.
func (d *Disk) MkdirAll(p string) {
	p = CleanPath(p)
	for {
		d.Dirs[p] = true
		if p == "/" {
			return
		}
		p = parentDir(p)
	}
}

// Put stores a file, creating its ancestors.
func (d *Disk) Put(p string, content []byte) {
	p = CleanPath(p)
	d.MkdirAll(parentDir(p))
	d.Files[p] = content
}

// Symlink creates a symbolic link at p pointing to target, creating p's ancestors.
func (d *Disk) Symlink(p, target string) {
	p = CleanPath(p)
	d.MkdirAll(parentDir(p))
	if d.Links == nil {
		d.Links = map[string]string{}
	}
	d.Links[p] = target
}

// Resolve follows symbolic links in p (all components; the last one only when
// followLast). It returns the resolved path and 0, or an errno (ELOOP).
func (d *Disk) Resolve(p string, followLast bool) (string, int64) {
	if len(d.Links) == 0 {
		return p, 0
	}
	hops := 0
	for {
		segs := strings.Split(strings.Trim(p, "/"), "/")
		cur := ""
		changed := false
		for i, sg := range segs {
			if sg == "" {
				continue
			}
			next := cur + "/" + sg
			last := i == len(segs)-1
			if t, ok := d.Links[next]; ok && (!last || followLast) {
				hops++
				if hops > 40 {
					return p, int64(syscall.ELOOP)
				}
				if !strings.HasPrefix(t, "/") {
					base := cur
					if base == "" {
						base = "/"
					}
					t = base + "/" + t
				}
				rest := strings.Join(segs[i+1:], "/")
				p = CleanPath(t + "/" + rest)
				changed = true
				break
			}
			cur = next
		}
		if !changed {
			return p, 0
		}
	}
}

// SortedFiles lists all file paths in lexical order.
func (d *Disk) SortedFiles() []string {
	out := make([]string, 0, len(d.Files))
	for p := range d.Files {
		out = append(out, p)
	}
	sort.Strings(out)
	return out
}

func parentDir(p string) string {
	i := strings.LastIndexByte(p, '/')
	if i <= 0 {
		return "/"
	}
	return p[:i]
}

// CleanPath lexically cleans an absolute slash path.
func CleanPath(p string) string {
	segs := strings.Split(p, "/")
	out := segs[:0:0]
	for _, s := range segs {
		switch s {
		case "", ".":
		case "..":
			if len(out) > 0 {
				out = out[:len(out)-1]
			}
		default:
			out = append(out, s)
		}
	}
	if len(out) == 0 {
		return "/"
	}
	return "/" + strings.Join(out, "/")
}

// children lists the immediate children of dir (names, sorted) and whether each is a directory.
func (d *Disk) children(dir string) (names []string, isDir []bool) {
	pre := dir
	if pre != "/" {
		pre += "/"
	}
	seen := map[string]bool{}
	add := func(p string, dirEnt bool) {
		if !strings.HasPrefix(p, pre) || p == dir {
			return
		}
		rest := p[len(pre):]
		if i := strings.IndexByte(rest, '/'); i >= 0 {
			rest = rest[:i]
			dirEnt = true
		}
		if rest == "" {
			return
		}
		if was, ok := seen[rest]; ok {
			seen[rest] = was || dirEnt
			return
		}
		seen[rest] = dirEnt
	}
	for p := range d.Files {
		add(p, false)
	}
	for p := range d.Dirs {
		add(p, true)
	}
	for p := range d.Links {
		add(p, false)
	}
	for n := range seen {
		names = append(names, n)
	}
	sort.Strings(names)
	for _, n := range names {
		isDir = append(isDir, seen[n])
	}
	return
}

// Fault kinds.
const (
	FReadEIO    = "read-eio"
	FReadEACCES = "read-eacces"
	FReadENOENT = "read-enoent"
	FReadEISDIR = "read-eisdir"
	FTorn       = "torn"
	FZeroed     = "zeroed"
	FDupBlock   = "dup-block"
	FSwapBlock  = "swap-block"
	FBitflip    = "bitflip"
	FRewritten  = "rewritten"
	FStatErr    = "stat-error"
	FGetwdErr   = "getwd-error"
	FWalkErr    = "walk-error"
	FWriteNoSpc = "write-enospc"
)

// Fault is one planned disk fault. It applies to the Nth access (1-based; 0 =
// every access) of Path by an operation of the right family, or - when
// OpIndex > 0 - to the I/O operation with that global index whatever its path.
type Fault struct {
	Kind    string `json:"kind"`
	Path    string `json:"path,omitempty"`
	Nth     int    `json:"nth,omitempty"`
	OpIndex int    `json:"op_index,omitempty"`
	Off     int    `json:"off,omitempty"`
	Len     int    `json:"len,omitempty"`
	Seed    uint64 `json:"seed,omitempty"`
	Alt     []byte `json:"alt,omitempty"`
}

func faultFamily(kind string) Op {
	switch kind {
	case FStatErr:
		return OpStat
	case FGetwdErr:
		return OpGetwd
	case FWalkErr:
		return OpReadDir
	case FWriteNoSpc:
		return OpWriteFile
	}
	return OpReadFile
}

// matchFault finds the first planned fault that applies to this operation.
func (k *Kernel) matchFault(op Op, path string) *Fault {
	if len(k.cfg.Faults) == 0 {
		return nil
	}
	key := op.String() + " " + path
	k.access[key]++
	nth := k.access[key]
	for i := range k.cfg.Faults {
		f := &k.cfg.Faults[i]
		if faultFamily(f.Kind) != op {
			continue
		}
		if f.OpIndex > 0 {
			if f.OpIndex == k.ioOps {
				return f
			}
			continue
		}
		if f.Path != "" && f.Path != path {
			continue
		}
		if f.Nth != 0 && f.Nth != nth {
			continue
		}
		return f
	}
	return nil
}

func (k *Kernel) fired(f *Fault) {
	k.res.FaultsFired[f.Kind]++
	for i := range k.cfg.Faults {
		if &k.cfg.Faults[i] == f {
			k.res.FaultHits[i]++
		}
	}
}

func splitmix(x *uint64) uint64 {
	*x += 0x9e3779b97f4a7c15
	z := *x
	z = (z ^ (z >> 30)) * 0xbf58476d1ce4e5b9
	z = (z ^ (z >> 27)) * 0x94d049bb133111eb
	return z ^ (z >> 31)
}

// applyContentFault returns the content a faulted read observes.
func applyContentFault(f *Fault, c []byte) []byte {
	n := len(c)
	clamp := func(v int) int {
		if v < 0 {
			return 0
		}
		if v > n {
			return n
		}
		return v
	}
	switch f.Kind {
	case FTorn:
		return append([]byte(nil), c[:clamp(f.Off)]...)
	case FZeroed:
		out := append([]byte(nil), c...)
		for i := clamp(f.Off); i < clamp(f.Off+f.Len); i++ {
			out[i] = 0
		}
		return out
	case FDupBlock:
		a, b := clamp(f.Off), clamp(f.Off+f.Len)
		out := append([]byte(nil), c[:b]...)
		out = append(out, c[a:b]...)
		return append(out, c[b:]...)
	case FSwapBlock:
		a, m, b := clamp(f.Off), clamp(f.Off+f.Len), clamp(f.Off+2*f.Len)
		out := append([]byte(nil), c[:a]...)
		out = append(out, c[m:b]...)
		out = append(out, c[a:m]...)
		return append(out, c[b:]...)
	case FBitflip:
		out := append([]byte(nil), c...)
		if n == 0 {
			return out
		}
		s := f.Seed
		bits := f.Len
		if bits <= 0 {
			bits = 1
		}
		for i := 0; i < bits; i++ {
			r := splitmix(&s)
			out[int(r%uint64(n))] ^= 1 << ((r >> 32) % 8)
		}
		return out
	case FRewritten:
		return append([]byte(nil), f.Alt...)
	}
	return c
}

func (k *Kernel) doReadFile(t *task, path string) Rep {
	k.ioOps++
	// a planned fault names the path as the program spells it or the file it resolves to
	f := k.matchFault(OpReadFile, path)
	if rp, st := k.disk.Resolve(path, true); st != 0 {
		return Rep{Status: st}
	} else if rp != path {
		k.probe("reads_through_symlink")
		path = rp
		if f == nil {
			f = k.matchFault(OpReadFile, path)
		}
	}
	if f != nil {
		switch f.Kind {
		case FReadEIO:
			k.fired(f)
			return Rep{Status: int64(syscall.EIO)}
		case FReadEACCES:
			k.fired(f)
			return Rep{Status: int64(syscall.EACCES)}
		case FReadENOENT:
			k.fired(f)
			return Rep{Status: int64(syscall.ENOENT)}
		case FReadEISDIR:
			k.fired(f)
			return Rep{Status: int64(syscall.EISDIR)}
		default:
			if c, ok := k.disk.Files[path]; ok {
				k.fired(f)
				return Rep{Data: applyContentFault(f, c)}
			}
		}
	}
	if c, ok := k.disk.Files[path]; ok {
		return Rep{Data: c}
	}
	if k.disk.Dirs[path] {
		return Rep{Status: int64(syscall.EISDIR)}
	}
	if k.underFile(path) {
		return Rep{Status: int64(syscall.ENOTDIR)}
	}
	return Rep{Status: int64(syscall.ENOENT)}
}

// underFile reports whether some proper ancestor of path is a regular file.
func (k *Kernel) underFile(path string) bool {
	for p := parentDir(path); p != "/"; p = parentDir(p) {
		if _, ok := k.disk.Files[p]; ok {
			return true
		}
	}
	return false
}

// doStat: reply A = 1 for a directory, 0 for a regular file, 2 for a symbolic link (lstat only); B = size.
func (k *Kernel) doStat(t *task, path string, lstat bool) Rep {
	k.ioOps++
	if len(k.disk.Links) > 0 {
		rp, st := k.disk.Resolve(path, !lstat)
		if st != 0 {
			return Rep{Status: st}
		}
		if lstat {
			if _, ok := k.disk.Links[rp]; ok {
				return Rep{A: 2, S: rp}
			}
		}
		path = rp
	}
	if f := k.matchFault(OpStat, path); f != nil {
		k.fired(f)
		return Rep{Status: int64(syscall.EIO)}
	}
	// S: the resolved path - the identity of the file (what os.SameFile compares)
	if c, ok := k.disk.Files[path]; ok {
		if k.disk.Pipes[path] {
			return Rep{A: 3, B: 0, S: path}
		}
		return Rep{A: 0, B: int64(len(c)), S: path}
	}
	if k.disk.Dirs[path] {
		return Rep{A: 1, S: path}
	}
	if k.underFile(path) {
		return Rep{Status: int64(syscall.ENOTDIR)}
	}
	return Rep{Status: int64(syscall.ENOENT)}
}

// doReadDir: reply Strs = child names (sorted), Data[i] = 1 for directories.
func (k *Kernel) doReadDir(t *task, path string) Rep {
	k.ioOps++
	if rp, st := k.disk.Resolve(path, true); st != 0 {
		return Rep{Status: st}
	} else {
		path = rp
	}
	if f := k.matchFault(OpReadDir, path); f != nil {
		k.fired(f)
		return Rep{Status: int64(syscall.EIO)}
	}
	if !k.disk.Dirs[path] {
		if _, ok := k.disk.Files[path]; ok {
			return Rep{Status: int64(syscall.ENOTDIR)}
		}
		return Rep{Status: int64(syscall.ENOENT)}
	}
	names, isDir := k.disk.children(path)
	flags := make([]byte, len(names))
	pre := path
	if pre != "/" {
		pre += "/"
	}
	for i, d := range isDir {
		if d {
			flags[i] = 1
		}
		if _, isLink := k.disk.Links[pre+names[i]]; isLink {
			flags[i] = 2 // a symbolic link (what it points to is not looked at here)
		}
	}
	return Rep{Strs: names, Data: flags}
}

func (k *Kernel) doWriteFile(t *task, path string, data []byte) Rep {
	k.ioOps++
	if f := k.matchFault(OpWriteFile, path); f != nil {
		k.fired(f)
		return Rep{Status: int64(syscall.ENOSPC)}
	}
	if k.disk.Dirs[path] {
		return Rep{Status: int64(syscall.EISDIR)}
	}
	if !k.disk.Dirs[parentDir(path)] && parentDir(path) != "/tmp" {
		// (the directory for temporary files always exists)
		return Rep{Status: int64(syscall.ENOENT)}
	}
	if !k.diskOwned {
		k.disk = k.disk.Clone()
		k.diskOwned = true
	}
	c := append([]byte(nil), data...)
	k.disk.Files[path] = c
	if k.res.Written == nil {
		k.res.Written = map[string][]byte{}
	}
	k.res.Written[path] = c
	return Rep{}
}
