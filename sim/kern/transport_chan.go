//go:build !race

package kern

import (
	"fmt"
	"runtime"
	"runtime/debug"
)

// Channel transport (semantic lane): the kernel logic runs on the calling
// task's goroutine; tasks hand the baton to each other over channels. The race
// lane uses transport_pipe.go instead, where the baton is invisible to the race
// detector.

type wakeMsg struct {
	rep   Rep
	abort bool
}

type transportTask struct {
	wake chan wakeMsg
}

// K is the kernel of the run in progress (nil outside a run).
var K *Kernel

// Active reports whether a simulated run is in progress.
func Active() bool { return K != nil }

// RaceLane reports whether this binary uses the race-detector transport.
const RaceLane = false

// Call performs a kernel operation on behalf of the running task and returns
// when the scheduler lets this task continue.
func Call(r Req) Rep {
	k := K
	if k == nil {
		panic("kern.Call outside a simulated run")
	}
	if k.aborting {
		return Rep{}
	}
	t := k.cur
	if !k.countStep() {
		k.abortFrom(t)
	}
	k.handle(t, &r)
	return k.switchFrom(t)
}

func (k *Kernel) switchFrom(t *task) Rep {
	next := k.schedule()
	if k.aborting {
		k.abortFrom(t)
	}
	if next == t {
		rep := t.pending
		t.pending = Rep{}
		return rep
	}
	if next != nil {
		rep := next.pending
		next.pending = Rep{}
		next.tr.wake <- wakeMsg{rep: rep}
	}
	m := <-t.tr.wake
	if m.abort {
		runtime.Goexit()
	}
	return m.rep
}

// abortFrom unwinds the calling task; the rest of the tasks are unwound one at
// a time from exited().
func (k *Kernel) abortFrom(t *task) {
	runtime.Goexit()
}

// Go starts f as a new task. Must be called from a running task.
func Go(name string, f func()) {
	k := K
	if k == nil {
		go f()
		return
	}
	if k.aborting {
		return
	}
	c := k.newTask(name)
	c.tr.wake = make(chan wakeMsg, 1)
	go k.taskMain(c, f)
	Call(Req{Op: OpSpawn, A: int64(c.id)})
}

func (k *Kernel) taskMain(t *task, f func()) {
	defer func() {
		if r := recover(); r != nil {
			if k.res.Panic == nil {
				k.res.Panic = &PanicInfo{Task: t.id, Name: t.name, Value: fmt.Sprint(r), Stack: string(debug.Stack())}
			}
			k.aborting = true
		}
		k.exited(t)
	}()
	m := <-t.tr.wake
	if m.abort {
		return
	}
	f()
	if t == k.root && !k.aborting {
		k.noteRootReturn()
	}
}

// exited runs on the exiting task's goroutine, after its deferred calls.
func (k *Kernel) exited(t *task) {
	if !k.aborting {
		k.countStep()
	}
	if !k.aborting {
		r := Req{Op: OpExit}
		k.handle(t, &r)
		next := k.schedule()
		if next != nil {
			rep := next.pending
			next.pending = Rep{}
			next.tr.wake <- wakeMsg{rep: rep}
			return
		}
		if !k.aborting {
			close(k.done)
			return
		}
	}
	// aborting: unwind the remaining tasks one at a time
	t.state = tDead
	for _, o := range k.tasks {
		if o.state != tDead {
			o.state = tDead // it will not enter the kernel again (Call is a no-op while aborting)
			o.tr.wake <- wakeMsg{abort: true}
			return
		}
	}
	close(k.done)
}

// Run executes root as the first task of a fresh kernel and returns when every
// task has finished (or the run was aborted).
func Run(cfg Config, root func()) *Result {
	if K != nil {
		panic("kern.Run: nested run")
	}
	k := newKernel(cfg)
	K = k
	rt := k.newTask("root")
	rt.tr.wake = make(chan wakeMsg, 1)
	k.root = rt
	k.cur = rt
	go k.taskMain(rt, root)
	rt.tr.wake <- wakeMsg{}
	<-k.done
	K = nil
	return k.finish()
}

// Cwd returns the virtual working directory of the run in progress.
func Cwd() string { return K.cfg.Cwd }

// EpochNano returns the wall-clock instant (Unix nanoseconds) of simulated time zero.
func EpochNano() int64 { return K.cfg.Epoch.UnixNano() }

// Aborting reports whether the current run is being unwound; facade
// operations are no-ops then.
func Aborting() bool { return K != nil && K.aborting }

var nextObj uint64

// ObjID returns the identity of a facade object, assigning one on first use.
// Addresses are not used as identities: the allocator reuses them within a run.
//
//go:norace
func ObjID(p *uint64) uint64 {
	if *p == 0 {
		nextObj++
		*p = nextObj
	}
	return *p
}
