package kern

import (
	"container/heap"
	"fmt"
	"sort"
	"strings"
	"syscall"
	"time"
)

// Config describes one simulated run.
type Config struct {
	Src  Source
	Disk *Disk // not modified (copied on first write)
	Cwd  string
	CPUs int
	// GoMaxProcs is what runtime.GOMAXPROCS(0) reports (0 = same as CPUs). It may exceed the
	// number of CPUs of the machine (environment variable, embedding program).
	GoMaxProcs int
	Tools      ToolModel
	Faults     []Fault
	MaxSteps   int
	KeepTrace  bool
	// NoPreempt makes the scheduler non-preemptive without consuming choices
	// (used for canonical runs together with the Zero source; equivalent, cheaper).
	NoPreempt bool
	// Epoch is the wall-clock instant of simulated time zero.
	Epoch time.Time
}

type tstate uint8

const (
	tRunnable tstate = iota
	tBlocked
	tDead
)

type task struct {
	ops      int // kernel requests handled for this task so far
	id       int
	name     string
	state    tstate
	pending  Rep
	retry    *Req // re-attempt this request when scheduled (lock acquisition races)
	waitOp   Op
	waitObj  uint64
	waitN    int64
	waitDesc string // OpPoll: the channel operation the task is parked in
	wgWoken  uint64 // WaitGroup whose counter reached zero and woke this task; checked when the task resumes
	tr       transportTask
}

type mutexSt struct {
	writer         int // task id, 0 = none
	readers        int
	waitingWriters int
	readerWaiters  []int
	writerWaiters  []int
}

type semSt struct {
	size, cur int64
	waiters   []int
}

type wgSt struct {
	n       int64
	waiters []int
}

type proc struct {
	killed    bool // terminated by Process.Kill before it exited by itself
	hasPipe   bool // holds a stdin pipe (counted in openPipes until the process is gone)
	inv       *Invocation
	started   bool
	closed    bool // stdin closed
	exited    bool
	scheduled bool
	waiter    int
	stdin     []byte
}

type event struct {
	at  time.Duration
	seq int
	pid int
	tid int // sleep wake-up when pid == 0
}

type eventHeap []event

func (h eventHeap) Len() int { return len(h) }
func (h eventHeap) Less(i, j int) bool {
	if h[i].at != h[j].at {
		return h[i].at < h[j].at
	}
	return h[i].seq < h[j].seq
}
func (h eventHeap) Swap(i, j int) { h[i], h[j] = h[j], h[i] }
func (h *eventHeap) Push(x any)   { *h = append(*h, x.(event)) }
func (h *eventHeap) Pop() any {
	o := *h
	e := o[len(o)-1]
	*h = o[:len(o)-1]
	return e
}

// eagerHorizon bounds how far in the simulated future an event may lie to be fired while tasks
// are still runnable.
const eagerHorizon = time.Second

// Kernel holds all simulator state of one run.
type Kernel struct {
	validBuf  []int
	cfg       Config
	src       Source
	disk      *Disk
	diskOwned bool
	tasks     []*task // index = id-1
	cur       *task
	root      *task
	mutexes   map[uint64]*mutexSt
	wgs       map[uint64]*wgSt
	sems      map[uint64]*semSt
	objIDs    map[uint64]int
	procs     []*proc
	openPipes int
	running   int
	events    eventHeap
	evSeq     int
	now       time.Duration
	access    map[string]int
	ioOps     int
	hash      uint64
	aborting  bool
	res       Result
	done      chan struct{}
	afterRoot bool
}

func (k *Kernel) oid(o uint64) int {
	if id, ok := k.objIDs[o]; ok {
		return id
	}
	id := len(k.objIDs) + 1
	k.objIDs[o] = id
	return id
}

func (k *Kernel) trace(t *task, op Op, detail string) {
	h := k.hash
	mix := func(s string) {
		for i := 0; i < len(s); i++ {
			h ^= uint64(s[i])
			h *= 1099511628211
		}
		h ^= 0xff
		h *= 1099511628211
	}
	tid := 0
	if t != nil {
		tid = t.id
	}
	h ^= uint64(tid)<<8 | uint64(op)
	h *= 1099511628211
	mix(detail)
	k.hash = h
	if k.cfg.KeepTrace {
		k.res.Trace = append(k.res.Trace, fmt.Sprintf("%d t%d %s %s", k.res.Steps, tid, op, detail))
	}
}

func (k *Kernel) probe(name string) { k.res.Probes[name]++ }

func (k *Kernel) task(id int) *task { return k.tasks[id-1] }

func (k *Kernel) newTask(name string) *task {
	t := &task{id: len(k.tasks) + 1, name: name, state: tRunnable}
	k.tasks = append(k.tasks, t)
	k.res.Tasks = len(k.tasks)
	return t
}

func (k *Kernel) block(t *task, op Op, obj uint64) {
	t.state, t.waitOp, t.waitObj = tBlocked, op, obj
}

func (k *Kernel) wake(id int, r Rep) {
	t := k.task(id)
	t.state = tRunnable
	t.pending = r
}

func removeInt(s []int, v int) []int {
	for i, x := range s {
		if x == v {
			return append(s[:i:i], s[i+1:]...)
		}
	}
	return s
}

// handle applies one request of task t to the model. It may block t, set
// t.pending (the reply t sees when it next runs) and wake other tasks.
func (k *Kernel) handle(t *task, r *Req) {
	t.pending = Rep{}
	t.ops++
	// (a final WaitGroup.Done is bookkeeping of a task whose work is over, like its exit)
	// (... and a task parked in a channel operation that looks again is waiting, not working)
	// (... nor is the sleep of a timer task of the time facade)
	if k.afterRoot && r.Op != OpExit && r.Op != OpPoll && !(r.Op == OpWGAdd && r.A < 0) && !(r.Op == OpSleep && t.name == "timer") && t != k.root {
		k.res.WorkAfterRoot++
		if len(k.res.OpsAfterRoot) < 8 {
			k.res.OpsAfterRoot = append(k.res.OpsAfterRoot, fmt.Sprintf("t%d(%s) %s", t.id, t.name, r.Op))
		}
	}
	if r.Op != OpPoll {
		// Channels are not modelled: a task whose blocking channel operation was not ready parks
		// in OpPoll and looks again whenever any other task has done anything (only another
		// task's action can make the channel ready, and every action is followed by a kernel
		// operation of that task, at the latest its exit).
		k.wakePollers()
	}
	switch r.Op {
	case OpPoll:
		k.trace(t, r.Op, r.S)
		k.block(t, r.Op, 0)
		t.waitDesc = r.S
		k.res.Probes["channel_waits"]++
	case OpSpawn:
		// the facade has already registered the child (k.newTask) - r.A is its id
		k.trace(t, r.Op, fmt.Sprintf("-> t%d", r.A))
	case OpExit:
		k.trace(t, r.Op, "")
		t.state = tDead
	case OpYield:
		k.trace(t, r.Op, r.S)
	case OpNote:
		k.trace(t, r.Op, r.S)
		k.res.History = append(k.res.History, HistEvent{Seq: k.res.Steps, Task: t.id, Name: r.S, Detail: string(r.Data)})
	case OpBlockForever:
		k.trace(t, r.Op, r.S)
		k.block(t, r.Op, 0)
		t.pending = Rep{}
	case OpLock:
		m := k.mutex(r.Obj)
		if m.writer == 0 && m.readers == 0 {
			m.writer = t.id
			if t.retry != nil {
				m.waitingWriters--
				m.writerWaiters = removeInt(m.writerWaiters, t.id)
				t.retry = nil
			}
			k.trace(t, r.Op, fmt.Sprintf("#%d acquired", k.oid(r.Obj)))
		} else {
			if t.retry == nil {
				m.waitingWriters++
				m.writerWaiters = append(m.writerWaiters, t.id)
				k.trace(t, r.Op, fmt.Sprintf("#%d blocked", k.oid(r.Obj)))
				k.probe("lock_contended")
			}
			rr := *r
			t.retry = &rr
			k.block(t, r.Op, r.Obj)
		}
	case OpUnlock:
		m := k.mutex(r.Obj)
		if m.writer == 0 {
			k.trace(t, r.Op, fmt.Sprintf("#%d of unlocked", k.oid(r.Obj)))
			t.pending = Rep{Status: StPanicUnlock}
			return
		}
		k.trace(t, r.Op, fmt.Sprintf("#%d", k.oid(r.Obj)))
		m.writer = 0
		if len(m.readerWaiters) > 0 {
			// Go's RWMutex.Unlock releases every reader that queued behind the writer.
			for _, id := range m.readerWaiters {
				m.readers++
				k.wake(id, Rep{})
			}
			m.readerWaiters = nil
		} else {
			k.wakeWriters(m)
		}
	case OpRLock:
		m := k.mutex(r.Obj)
		if m.writer == 0 && m.waitingWriters == 0 {
			m.readers++
			k.trace(t, r.Op, fmt.Sprintf("#%d acquired", k.oid(r.Obj)))
		} else {
			m.readerWaiters = append(m.readerWaiters, t.id)
			k.trace(t, r.Op, fmt.Sprintf("#%d blocked", k.oid(r.Obj)))
			k.probe("rlock_contended")
			k.block(t, r.Op, r.Obj)
		}
	case OpRUnlock:
		m := k.mutex(r.Obj)
		if m.readers <= 0 {
			k.trace(t, r.Op, fmt.Sprintf("#%d of unlocked", k.oid(r.Obj)))
			t.pending = Rep{Status: StPanicRUnlock}
			return
		}
		k.trace(t, r.Op, fmt.Sprintf("#%d", k.oid(r.Obj)))
		m.readers--
		if m.readers == 0 {
			k.wakeWriters(m)
		}
	case OpWGAdd:
		w := k.wg(r.Obj)
		w.n += r.A
		k.trace(t, r.Op, fmt.Sprintf("#%d %+d -> %d", k.oid(r.Obj), r.A, w.n))
		if w.n < 0 {
			t.pending = Rep{Status: StPanicNegativeWG}
			return
		}
		if r.A > 0 && w.n == r.A && len(w.waiters) > 0 {
			// Add from zero while a Wait is parked: WaitGroup misuse (racy in real Go).
			k.probe("wg_add_from_zero_while_wait_parked")
		}
		if w.n == 0 {
			for _, id := range w.waiters {
				k.wake(id, Rep{})
				k.task(id).wgWoken = r.Obj
			}
			w.waiters = nil
		}
	case OpWGWait:
		w := k.wg(r.Obj)
		k.trace(t, r.Op, fmt.Sprintf("#%d (%d)", k.oid(r.Obj), w.n))
		if w.n != 0 {
			w.waiters = append(w.waiters, t.id)
			k.block(t, r.Op, r.Obj)
		}
	case OpSemAcq, OpSemTry:
		s := k.sem(r.Obj, r.B)
		ok := s.size-s.cur >= r.A && len(s.waiters) == 0
		k.trace(t, r.Op, fmt.Sprintf("#%d n=%d cur=%d/%d ok=%v", k.oid(r.Obj), r.A, s.cur, s.size, ok))
		if ok {
			s.cur += r.A
			if s.cur == s.size {
				k.probe("semaphore_saturated")
			}
			t.pending = Rep{A: 1}
		} else if r.Op == OpSemTry {
			t.pending = Rep{A: 0}
		} else {
			k.probe("semaphore_blocked")
			t.waitN = r.A
			s.waiters = append(s.waiters, t.id)
			k.block(t, r.Op, r.Obj)
		}
	case OpSemRel:
		s := k.sem(r.Obj, r.B)
		s.cur -= r.A
		k.trace(t, r.Op, fmt.Sprintf("#%d n=%d cur=%d", k.oid(r.Obj), r.A, s.cur))
		if s.cur < 0 {
			t.pending = Rep{Status: StPanicSemRelease}
			return
		}
		for len(s.waiters) > 0 {
			o := k.task(s.waiters[0])
			if s.size-s.cur < o.waitN {
				break
			}
			s.cur += o.waitN
			s.waiters = s.waiters[1:]
			k.wake(o.id, Rep{A: 1})
		}
	case OpReadFile:
		t.pending = k.doReadFile(t, r.S)
		k.trace(t, r.Op, fmt.Sprintf("%s st=%d n=%d", r.S, t.pending.Status, len(t.pending.Data)))
	case OpStat:
		t.pending = k.doStat(t, r.S, r.A == 1)
		k.trace(t, r.Op, fmt.Sprintf("%s st=%d", r.S, t.pending.Status))
	case OpReadDir:
		t.pending = k.doReadDir(t, r.S)
		k.trace(t, r.Op, fmt.Sprintf("%s st=%d n=%d", r.S, t.pending.Status, len(t.pending.Strs)))
	case OpWriteFile:
		t.pending = k.doWriteFile(t, r.S, r.Data)
		k.trace(t, r.Op, fmt.Sprintf("%s st=%d n=%d", r.S, t.pending.Status, len(r.Data)))
	case OpEvalSymlinks:
		k.ioOps++
		rp, st := k.disk.Resolve(r.S, true)
		if st == 0 {
			if _, isFile := k.disk.Files[rp]; !isFile && !k.disk.Dirs[rp] {
				st = 2 // ENOENT
			}
		}
		t.pending = Rep{Status: st, S: rp}
		k.trace(t, r.Op, fmt.Sprintf("%s -> %s st=%d", r.S, rp, st))
	case OpReadlink:
		k.ioOps++
		if tg, ok := k.disk.Links[r.S]; ok {
			t.pending = Rep{S: tg}
		} else {
			t.pending = Rep{Status: 22} // EINVAL
		}
		k.trace(t, r.Op, r.S)
	case OpGetwd:
		k.ioOps++
		if f := k.matchFault(OpGetwd, ""); f != nil {
			k.fired(f)
			t.pending = Rep{Status: 2} // ENOENT, like a removed cwd
		} else {
			t.pending = Rep{S: k.cfg.Cwd}
		}
		k.trace(t, r.Op, fmt.Sprintf("st=%d", t.pending.Status))
	case OpNumCPU:
		n := k.cfg.CPUs
		if r.A == 1 && k.cfg.GoMaxProcs > 0 {
			n = k.cfg.GoMaxProcs
		}
		t.pending = Rep{A: int64(n)}
		k.trace(t, r.Op, "")
	case OpNow:
		t.pending = Rep{A: int64(k.now)}
		k.trace(t, r.Op, "")
	case OpSleep:
		k.trace(t, r.Op, time.Duration(r.A).String())
		if r.A > 0 {
			k.evSeq++
			heap.Push(&k.events, event{at: k.now + time.Duration(r.A), seq: k.evSeq, tid: t.id})
			k.block(t, r.Op, 0)
		}
	case OpLookPath:
		k.doLookPath(t, r)
	case OpProcStart:
		k.doProcStart(t, r)
	case OpProcStdin:
		k.doProcStdin(t, r)
	case OpProcKill:
		k.doProcKill(t, r)
	case OpPipeOpen:
		// Descriptors are bounded (RLIMIT_NOFILE); the model scales the bound with the machine: a
		// program whose open pipes grow with its input rather than with the CPUs runs into it.
		limit := 8*k.cfg.CPUs + 32
		if r.A < 0 {
			if k.openPipes > 0 {
				k.openPipes-- // a pipe given up without a process
			}
		} else if k.openPipes >= limit {
			t.pending = Rep{Status: int64(syscall.EMFILE)}
			k.probe("pipe_limit_hit")
		} else {
			k.openPipes++
			if k.openPipes > k.res.MaxOpenPipes {
				k.res.MaxOpenPipes = k.openPipes
			}
		}
		k.trace(t, r.Op, fmt.Sprintf("open=%d st=%d", k.openPipes, t.pending.Status))
	case OpProcWait:
		k.doProcWait(t, r)
	default:
		panic(fmt.Sprint("kern: bad op ", r.Op))
	}
}

func (k *Kernel) mutex(o uint64) *mutexSt {
	m := k.mutexes[o]
	if m == nil {
		m = &mutexSt{}
		k.mutexes[o] = m
	}
	return m
}
func (k *Kernel) wg(o uint64) *wgSt {
	w := k.wgs[o]
	if w == nil {
		w = &wgSt{}
		k.wgs[o] = w
	}
	return w
}
func (k *Kernel) sem(o uint64, size int64) *semSt {
	s := k.sems[o]
	if s == nil {
		s = &semSt{size: size}
		k.sems[o] = s
	}
	return s
}

// wakeWriters lets every waiting writer race for the free lock: each becomes
// runnable and re-attempts the acquisition when it is scheduled.
func (k *Kernel) wakeWriters(m *mutexSt) {
	for _, id := range m.writerWaiters {
		w := k.task(id)
		if w.state == tBlocked {
			w.state = tRunnable
		}
	}
}

// schedule picks the task that runs next. It returns nil when every task is
// dead, or when the run is being aborted (deadlock, budget).
func (k *Kernel) schedule() *task {
	loops := 0
	for {
		if k.aborting {
			return nil
		}
		var run []*task
		alive := 0
		for _, t := range k.tasks {
			if t.state == tRunnable {
				run = append(run, t)
			}
			if t.state != tDead {
				alive++
			}
		}
		if alive == 0 {
			if len(k.events) > 0 && k.running > 0 {
				// processes still running with nobody to collect them: let them finish
				k.fireEvent()
				continue
			}
			return nil
		}
		if len(run) == 0 {
			if len(k.events) > 0 {
				k.fireEvent()
				continue
			}
			if k.onlyChannelWaitersLeft() {
				// the call under test has returned; what is left are goroutines waiting for a channel
				// nobody will serve any more. In a Go program that is a leak (the goroutines sit there
				// until the process ends), not a hang: unwind them and finish normally.
				k.res.Probes["goroutines_left_waiting_on_a_channel"]++
				k.trace(nil, OpPoll, "leftover channel waiters unwound")
				k.aborting = true
				return nil
			}
			k.deadlock()
			return nil
		}
		if len(run) > k.res.MaxRunnable {
			k.res.MaxRunnable = len(run)
		}
		// order: current task first (if runnable), then the others by id
		if k.cur != nil && k.cur.state == tRunnable {
			for i, t := range run {
				if t == k.cur {
					copy(run[1:i+1], run[:i])
					run[0] = k.cur
					break
				}
			}
		}
		// The decision is encoded so that a recorded schedule stays meaningful when other
		// decisions are removed by the minimiser: the label names the scheduling point by the
		// task that ran last and the number of requests it has made; the value is 0 for the
		// default (continue the current task, else the runnable task with the lowest id), a
		// task id to run that task, or (number of tasks + 1) to let simulated time pass.
		alts := len(run)
		if len(k.events) > 0 {
			alts++
		}
		pick := 0
		if alts > 1 && !k.cfg.NoPreempt {
			k.res.SchedPoints++
			label := "sched"
			if k.cur != nil {
				label = fmt.Sprintf("sched.t%d#%d", k.cur.id, k.cur.ops)
				if loops > 0 {
					label += fmt.Sprintf(".%d", loops)
				}
			}
			eventV := len(k.tasks) + 1
			// While tasks can run, the next timed event may overtake them only if it is near: a
			// process that finishes, a timer that fires within a second of simulated time.
			// Computation is not assumed to be arbitrarily slow: a timeout of minutes or hours
			// expires only when every task is waiting.
			eventNear := len(k.events) > 0 && k.events[0].at-k.now <= eagerHorizon
			var v int
			if cf, ok := k.src.(ChooserFrom); ok {
				valid := k.validBuf[:0]
				valid = append(valid, 0)
				for _, t := range run[1:] {
					valid = append(valid, t.id)
				}
				if eventNear {
					valid = append(valid, eventV)
				}
				k.validBuf = valid
				v = cf.ChooseFrom(label, len(k.tasks)+2, valid)
			} else {
				v = k.src.Choose(label, len(k.tasks)+2)
			}
			switch {
			case v == eventV && eventNear:
				pick = len(run)
			case v > 0 && v <= len(k.tasks):
				for i, t := range run {
					if t.id == v {
						pick = i
					}
				}
			}
			if pick != 0 {
				k.res.Switches++
			}
		}
		loops++
		if pick >= len(run) {
			k.fireEvent()
			continue
		}
		t := run[pick]
		if t.retry != nil {
			rr := *t.retry
			k.handle(t, &rr)
			if t.state != tRunnable {
				continue
			}
		}
		if t.wgWoken != 0 {
			// like sync.WaitGroup.Wait: a waiter that resumes and finds the group in use again
			// (an Add from zero, or a new waiter, since it was woken) panics
			if w := k.wg(t.wgWoken); w.n != 0 || len(w.waiters) > 0 {
				t.pending.Status = StPanicWGReuse
				k.probe("wg_reused_before_wait_returned")
			}
			t.wgWoken = 0
		}
		k.cur = t
		return t
	}
}

// onlyChannelWaitersLeft reports whether the root task has finished and every task that is
// still blocked is parked in a channel operation.
func (k *Kernel) onlyChannelWaitersLeft() bool {
	if k.root == nil || k.root.state != tDead {
		return false
	}
	for _, t := range k.tasks {
		if t.state == tBlocked && t.waitOp != OpPoll {
			return false
		}
	}
	return true
}

func (k *Kernel) deadlock() {
	var b []string
	for _, t := range k.tasks {
		if t.state == tBlocked {
			what := fmt.Sprintf("t%d(%s) on %s", t.id, t.name, t.waitOp)
			if t.waitObj != 0 {
				what += fmt.Sprintf("#%d", k.oid(t.waitObj))
			}
			if t.waitOp == OpPoll && t.waitDesc != "" {
				what += " (" + t.waitDesc + ")"
			}
			b = append(b, what)
		}
	}
	sort.Strings(b)
	k.res.Deadlock = strings.Join(b, "; ")
	k.trace(nil, OpBlockForever, "DEADLOCK "+k.res.Deadlock)
	k.aborting = true
}

// wakePollers makes every task parked in OpPoll runnable again (it re-examines its channel).
func (k *Kernel) wakePollers() {
	for _, t := range k.tasks {
		if t.state == tBlocked && t.waitOp == OpPoll {
			t.state = tRunnable
			t.pending = Rep{}
		}
	}
}

func (k *Kernel) fireEvent() {
	k.wakePollers()
	e := heap.Pop(&k.events).(event)
	if e.at > k.now {
		k.now = e.at
	}
	if e.pid == 0 {
		k.trace(nil, OpSleep, fmt.Sprintf("wake t%d at %v", e.tid, k.now))
		k.wake(e.tid, Rep{})
		return
	}
	k.procExit(e.pid)
}

func newKernel(cfg Config) *Kernel {
	if cfg.Src == nil {
		cfg.Src = Zero{}
	}
	if cfg.MaxSteps == 0 {
		cfg.MaxSteps = 20000
	}
	if cfg.CPUs == 0 {
		cfg.CPUs = 1
	}
	if cfg.Disk == nil {
		cfg.Disk = NewDisk()
	}
	if cfg.Cwd == "" {
		cfg.Cwd = "/"
	}
	if cfg.Epoch.IsZero() {
		cfg.Epoch = time.Unix(1700000000, 0)
	}
	k := &Kernel{cfg: cfg, src: cfg.Src, disk: cfg.Disk,
		mutexes: map[uint64]*mutexSt{}, wgs: map[uint64]*wgSt{}, sems: map[uint64]*semSt{},
		objIDs: map[uint64]int{}, access: map[string]int{}, hash: 1469598103934665603,
		done: make(chan struct{})}
	k.res.FaultsFired = map[string]int{}
	k.res.FaultHits = map[int]int{}
	k.res.Probes = map[string]int{}
	return k
}

// RunHook, when set, is called at the end of every simulated run (the worker's
// watchdog uses it: a hang is a single run that does not finish).
var RunHook func()

func (k *Kernel) finish() *Result {
	if RunHook != nil {
		RunHook()
	}
	k.res.TraceHash = k.hash
	k.res.SimTime = k.now
	k.res.IOOps = k.ioOps
	for _, p := range k.procs {
		k.res.Invocations = append(k.res.Invocations, p.inv)
	}
	return &k.res
}

func (k *Kernel) noteRootReturn() {
	k.res.RootReturned = true
	k.afterRoot = true
	for _, t := range k.tasks {
		if t != k.root && t.state != tDead {
			k.res.LiveAtRootReturn++
		}
	}
	k.res.ProcsAtRootReturn = k.running
	k.trace(k.root, OpNote, fmt.Sprintf("root returned live=%d procs=%d", k.res.LiveAtRootReturn, k.res.ProcsAtRootReturn))
}

func (k *Kernel) countStep() bool {
	k.res.Steps++
	if k.afterRoot {
		k.res.StepsAfterRoot++
	}
	if k.res.Steps > k.cfg.MaxSteps {
		k.res.Budget = true
		k.aborting = true
		return false
	}
	return true
}
