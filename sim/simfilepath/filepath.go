// Package simfilepath replaces path/filepath: Abs uses the virtual working
// directory and Walk/WalkDir traverse the virtual disk.
package simfilepath

import (
	"io/fs"
	orig "path/filepath"
	"syscall"

	"verifsim/sim/kern"
	"verifsim/sim/simos"
)

// Abs returns an absolute representation of path, relative to the virtual cwd.
func Abs(path string) (string, error) {
	if !kern.Active() {
		return orig.Abs(path)
	}
	if orig.IsAbs(path) {
		return orig.Clean(path), nil
	}
	wd, err := simos.Getwd()
	if err != nil {
		return "", err
	}
	return orig.Join(wd, path), nil
}

// EvalSymlinks resolves symbolic links of the virtual disk.
func EvalSymlinks(path string) (string, error) {
	if !kern.Active() {
		return orig.EvalSymlinks(path)
	}
	rp, st := simos.VEvalSymlinks(simos.VAbs(path))
	if st != 0 {
		return "", &fs.PathError{Op: "lstat", Path: path, Err: syscall.Errno(st)}
	}
	if !orig.IsAbs(path) {
		// like the real one, a relative path stays relative when no link was met
		if rp == simos.VAbs(path) {
			return orig.Clean(path), nil
		}
	}
	return rp, nil
}

// Walk walks the virtual file tree rooted at root in lexical order, like the real one.
func Walk(root string, fn WalkFunc) error {
	if !kern.Active() {
		return orig.Walk(root, fn)
	}
	info, err := simos.Lstat(root)
	if err != nil {
		err = fn(root, nil, err)
	} else {
		err = walk(root, info, fn)
	}
	if err == SkipDir || err == SkipAll {
		return nil
	}
	return err
}

func walk(path string, info fs.FileInfo, walkFn WalkFunc) error {
	if !info.IsDir() {
		return walkFn(path, info, nil)
	}
	names, st := simos.VReadDirNames(simos.VAbs(path))
	var err error
	if st != 0 {
		err = &fs.PathError{Op: "open", Path: path, Err: syscall.Errno(st)}
	}
	err1 := walkFn(path, info, err)
	if err != nil || err1 != nil {
		return err1
	}
	for _, name := range names {
		filename := orig.Join(path, name)
		fileInfo, err := simos.Lstat(filename)
		if err != nil {
			if err := walkFn(filename, fileInfo, err); err != nil && err != SkipDir {
				return err
			}
		} else {
			err = walk(filename, fileInfo, walkFn)
			if err != nil {
				if !fileInfo.IsDir() || err != SkipDir {
					return err
				}
			}
		}
	}
	return nil
}

// WalkDir is implemented on top of Walk's traversal.
func WalkDir(root string, fn fs.WalkDirFunc) error {
	if !kern.Active() {
		return orig.WalkDir(root, fn)
	}
	return Walk(root, func(path string, info fs.FileInfo, err error) error {
		var d fs.DirEntry
		if info != nil {
			d = fs.FileInfoToDirEntry(info)
		}
		return fn(path, d, err)
	})
}
