// Package simos replaces package os for the code under test. File-system and
// working-directory operations go to the kernel's virtual disk; everything
// else is re-exported from the real package (zz_reexport.go, generated).
package simos

import (
	"errors"
	"io"
	"io/fs"
	orig "os"
	"strings"
	"syscall"
	"time"

	"verifsim/sim/kern"
)

type fileInfo struct {
	name string
	dir  bool
	link bool
	pipe bool
	size int64
	real string // resolved absolute path: the identity of the file on the virtual disk
}

// SameFile reports whether the two infos describe the same file of the virtual disk.
func SameFile(a, b FileInfo) bool {
	x, ok1 := a.(fileInfo)
	y, ok2 := b.(fileInfo)
	if ok1 && ok2 {
		return x.real != "" && x.real == y.real
	}
	if ok1 || ok2 {
		return false
	}
	return orig.SameFile(a, b)
}

func (i fileInfo) Name() string { return i.name }
func (i fileInfo) Size() int64  { return i.size }
func (i fileInfo) Mode() fs.FileMode {
	if i.link {
		return fs.ModeSymlink | 0o777
	}
	if i.pipe {
		return fs.ModeNamedPipe | 0o600
	}
	if i.dir {
		return fs.ModeDir | 0o755
	}
	return 0o644
}
func (i fileInfo) ModTime() time.Time         { return time.Unix(1700000000, 0) }
func (i fileInfo) IsDir() bool                { return i.dir }
func (i fileInfo) Sys() any                   { return nil }
func (i fileInfo) Type() fs.FileMode          { return i.Mode().Type() }
func (i fileInfo) Info() (fs.FileInfo, error) { return i, nil }

// VAbs resolves p against the virtual working directory, lexically.
func VAbs(p string) string {
	if strings.HasPrefix(p, "/") {
		return kern.CleanPath(p)
	}
	return kern.CleanPath(kern.Cwd() + "/" + p)
}

func base(p string) string {
	if i := strings.LastIndexByte(p, '/'); i >= 0 && i+1 < len(p) {
		return p[i+1:]
	}
	return p
}

func pathErr(op, p string, st int64) error {
	return &fs.PathError{Op: op, Path: p, Err: syscall.Errno(st)}
}

// ReadFile reads the named file from the virtual disk.
func ReadFile(name string) ([]byte, error) {
	if !kern.Active() {
		return orig.ReadFile(name)
	}
	r := kern.Call(kern.Req{Op: kern.OpReadFile, S: VAbs(name)})
	if r.Status != 0 {
		op := "open"
		if r.Status == int64(syscall.EISDIR) || r.Status == int64(syscall.EIO) {
			op = "read"
		}
		return nil, pathErr(op, name, r.Status)
	}
	out := make([]byte, len(r.Data))
	copy(out, r.Data)
	return out, nil
}

// Stat returns a FileInfo describing the named file of the virtual disk.
func Stat(name string) (FileInfo, error) {
	if !kern.Active() {
		return orig.Stat(name)
	}
	r := kern.Call(kern.Req{Op: kern.OpStat, S: VAbs(name)})
	if r.Status != 0 {
		return nil, pathErr("stat", name, r.Status)
	}
	return fileInfo{name: base(name), dir: r.A == 1, pipe: r.A == 3, size: r.B, real: r.S}, nil
}

// Lstat is Stat: the virtual disk has no symbolic links.
func Lstat(name string) (FileInfo, error) {
	if !kern.Active() {
		return orig.Lstat(name)
	}
	r := kern.Call(kern.Req{Op: kern.OpStat, S: VAbs(name), A: 1})
	if r.Status != 0 {
		return nil, pathErr("lstat", name, r.Status)
	}
	return fileInfo{name: base(name), dir: r.A == 1, link: r.A == 2, pipe: r.A == 3, size: r.B, real: r.S}, nil
}

// Readlink returns the destination of the named symbolic link of the virtual disk.
func Readlink(name string) (string, error) {
	if !kern.Active() {
		return orig.Readlink(name)
	}
	r := kern.Call(kern.Req{Op: kern.OpReadlink, S: VAbs(name)})
	if r.Status != 0 {
		return "", pathErr("readlink", name, r.Status)
	}
	return r.S, nil
}

// VEvalSymlinks is used by simfilepath.EvalSymlinks.
func VEvalSymlinks(abs string) (string, int64) {
	r := kern.Call(kern.Req{Op: kern.OpEvalSymlinks, S: abs})
	return r.S, r.Status
}

// Getwd returns the virtual working directory.
func Getwd() (string, error) {
	if !kern.Active() {
		return orig.Getwd()
	}
	r := kern.Call(kern.Req{Op: kern.OpGetwd})
	if r.Status != 0 {
		return "", orig.NewSyscallError("getwd", syscall.Errno(r.Status))
	}
	return r.S, nil
}

// WriteFile writes data to the named file of the virtual disk.
func WriteFile(name string, data []byte, perm FileMode) error {
	if !kern.Active() {
		return orig.WriteFile(name, data, perm)
	}
	r := kern.Call(kern.Req{Op: kern.OpWriteFile, S: VAbs(name), Data: data})
	if r.Status != 0 {
		return pathErr("open", name, r.Status)
	}
	return nil
}

// ReadDir reads the named directory of the virtual disk, sorted by filename.
func ReadDir(name string) ([]DirEntry, error) {
	if !kern.Active() {
		return orig.ReadDir(name)
	}
	r := kern.Call(kern.Req{Op: kern.OpReadDir, S: VAbs(name)})
	if r.Status != 0 {
		return nil, pathErr("open", name, r.Status)
	}
	out := make([]DirEntry, len(r.Strs))
	for i, n := range r.Strs {
		out[i] = fileInfo{name: n, dir: r.Data[i] == 1, link: r.Data[i] == 2}
	}
	return out, nil
}

// VReadDirNames is used by simfilepath.Walk.
func VReadDirNames(abs string) ([]string, int64) {
	r := kern.Call(kern.Req{Op: kern.OpReadDir, S: abs})
	return r.Strs, r.Status
}

// Open opens a file of the virtual disk for reading. The code under test gets a real *os.File:
// the content (as the kernel's read of that moment delivers it, faults included) is copied into
// an unlinked temporary file, so Read, Stat().Size(), Seek and Close behave as usual.
func Open(name string) (*File, error) {
	if !kern.Active() {
		return orig.Open(name)
	}
	st := kern.Call(kern.Req{Op: kern.OpStat, S: VAbs(name)})
	if st.Status == 0 && st.A == 1 {
		// a directory: nothing to read; give the real call something that is a directory
		return orig.Open(orig.TempDir())
	}
	r := kern.Call(kern.Req{Op: kern.OpReadFile, S: VAbs(name)})
	if r.Status != 0 {
		return nil, pathErr("open", name, r.Status)
	}
	if st.Status == 0 && st.A == 3 {
		// a named pipe: the reader gets a real pipe that delivers the content and then EOF
		pr, pw, err := orig.Pipe()
		if err != nil {
			return nil, err
		}
		data := append([]byte(nil), r.Data...)
		go func() { pw.Write(data); pw.Close() }()
		return pr, nil
	}
	f, err := orig.CreateTemp("", "verifsim-open-*")
	if err != nil {
		return nil, err
	}
	orig.Remove(f.Name())
	if _, err := f.Write(r.Data); err != nil {
		f.Close()
		return nil, err
	}
	if _, err := f.Seek(0, 0); err != nil {
		f.Close()
		return nil, err
	}
	return f, nil
}

// OpenFile: read-only opens go to the virtual disk, everything else to the real one.
func OpenFile(name string, flag int, perm FileMode) (*File, error) {
	if kern.Active() && flag&(orig.O_WRONLY|orig.O_RDWR|orig.O_CREATE|orig.O_APPEND|orig.O_TRUNC) == 0 {
		return Open(name)
	}
	return orig.OpenFile(name, flag, perm)
}

// Getpid is constant: the process id must not leak into file names or traces of a simulated run.
func Getpid() int {
	if !kern.Active() {
		return orig.Getpid()
	}
	return 4242
}

// TempDir is /tmp on the virtual disk (files can always be written there).
func TempDir() string {
	if !kern.Active() {
		return orig.TempDir()
	}
	return "/tmp"
}

// Remove deletes a file of the virtual disk written during the run; anything else is reported
// as done (the virtual disk of a world is not modified by the code under test otherwise).
func Remove(name string) error {
	if !kern.Active() {
		return orig.Remove(name)
	}
	return nil
}

// DirFS returns a file system for the tree rooted at dir on the virtual disk (io/fs interfaces:
// Open, ReadDir, Stat, ReadFile). Libraries that do their directory I/O through io/fs see the
// simulated world when their os import is redirected.
func DirFS(dir string) fs.FS {
	if !kern.Active() {
		return orig.DirFS(dir)
	}
	return vdirFS(VAbs(dir))
}

type vdirFS string

func (d vdirFS) abs(name string) (string, error) {
	if !fs.ValidPath(name) {
		return "", &fs.PathError{Op: "open", Path: name, Err: fs.ErrInvalid}
	}
	if name == "." {
		return string(d), nil
	}
	return string(d) + "/" + name, nil
}

func (d vdirFS) Stat(name string) (fs.FileInfo, error) {
	p, err := d.abs(name)
	if err != nil {
		return nil, err
	}
	fi, err := Stat(p)
	if err != nil {
		return nil, &fs.PathError{Op: "stat", Path: name, Err: errors.Unwrap(err)}
	}
	return fi, nil
}

func (d vdirFS) ReadDir(name string) ([]fs.DirEntry, error) {
	p, err := d.abs(name)
	if err != nil {
		return nil, err
	}
	es, err := ReadDir(p)
	if err != nil {
		return nil, &fs.PathError{Op: "readdir", Path: name, Err: errors.Unwrap(err)}
	}
	return es, nil
}

func (d vdirFS) ReadFile(name string) ([]byte, error) {
	p, err := d.abs(name)
	if err != nil {
		return nil, err
	}
	return ReadFile(p)
}

func (d vdirFS) Open(name string) (fs.File, error) {
	p, err := d.abs(name)
	if err != nil {
		return nil, err
	}
	fi, err := Stat(p)
	if err != nil {
		return nil, &fs.PathError{Op: "open", Path: name, Err: errors.Unwrap(err)}
	}
	if fi.IsDir() {
		return &vdir{fs: d, name: name, info: fi}, nil
	}
	return Open(p)
}

// vdir is an open directory of a vdirFS.
type vdir struct {
	fs   vdirFS
	name string
	info fs.FileInfo
	ents []fs.DirEntry
	read bool
}

func (v *vdir) Stat() (fs.FileInfo, error) { return v.info, nil }
func (v *vdir) Read([]byte) (int, error) {
	return 0, &fs.PathError{Op: "read", Path: v.name, Err: syscall.EISDIR}
}
func (v *vdir) Close() error { return nil }
func (v *vdir) ReadDir(n int) ([]fs.DirEntry, error) {
	if !v.read {
		es, err := v.fs.ReadDir(v.name)
		if err != nil {
			return nil, err
		}
		v.ents, v.read = es, true
	}
	if n <= 0 {
		es := v.ents
		v.ents = nil
		return es, nil
	}
	if len(v.ents) == 0 {
		return nil, io.EOF
	}
	if n > len(v.ents) {
		n = len(v.ents)
	}
	es := v.ents[:n]
	v.ents = v.ents[n:]
	return es, nil
}
