// Package simos replaces package os for the code under test. File-system and
// working-directory operations go to the kernel's virtual disk; everything
// else is re-exported from the real package (zz_reexport.go, generated).
package simos

import (
	"io/fs"
	orig "os"
	"strings"
	"syscall"
	"time"

	"verifsim/sim/kern"
)

type fileInfo struct {
	name string
	dir  bool
	link bool
	size int64
	real string // resolved absolute path: the identity of the file on the virtual disk
}

// SameFile reports whether the two infos describe the same file of the virtual disk.
func SameFile(a, b FileInfo) bool {
	x, ok1 := a.(fileInfo)
	y, ok2 := b.(fileInfo)
	if ok1 && ok2 {
		return x.real != "" && x.real == y.real
	}
	if ok1 || ok2 {
		return false
	}
	return orig.SameFile(a, b)
}

func (i fileInfo) Name() string { return i.name }
func (i fileInfo) Size() int64  { return i.size }
func (i fileInfo) Mode() fs.FileMode {
	if i.link {
		return fs.ModeSymlink | 0o777
	}
	if i.dir {
		return fs.ModeDir | 0o755
	}
	return 0o644
}
func (i fileInfo) ModTime() time.Time         { return time.Unix(1700000000, 0) }
func (i fileInfo) IsDir() bool                { return i.dir }
func (i fileInfo) Sys() any                   { return nil }
func (i fileInfo) Type() fs.FileMode          { return i.Mode().Type() }
func (i fileInfo) Info() (fs.FileInfo, error) { return i, nil }

// VAbs resolves p against the virtual working directory, lexically.
func VAbs(p string) string {
	if strings.HasPrefix(p, "/") {
		return kern.CleanPath(p)
	}
	return kern.CleanPath(kern.Cwd() + "/" + p)
}

func base(p string) string {
	if i := strings.LastIndexByte(p, '/'); i >= 0 && i+1 < len(p) {
		return p[i+1:]
	}
	return p
}

func pathErr(op, p string, st int64) error {
	return &fs.PathError{Op: op, Path: p, Err: syscall.Errno(st)}
}

// ReadFile reads the named file from the virtual disk.
func ReadFile(name string) ([]byte, error) {
	if !kern.Active() {
		return orig.ReadFile(name)
	}
	r := kern.Call(kern.Req{Op: kern.OpReadFile, S: VAbs(name)})
	if r.Status != 0 {
		op := "open"
		if r.Status == int64(syscall.EISDIR) || r.Status == int64(syscall.EIO) {
			op = "read"
		}
		return nil, pathErr(op, name, r.Status)
	}
	out := make([]byte, len(r.Data))
	copy(out, r.Data)
	return out, nil
}

// Stat returns a FileInfo describing the named file of the virtual disk.
func Stat(name string) (FileInfo, error) {
	if !kern.Active() {
		return orig.Stat(name)
	}
	r := kern.Call(kern.Req{Op: kern.OpStat, S: VAbs(name)})
	if r.Status != 0 {
		return nil, pathErr("stat", name, r.Status)
	}
	return fileInfo{name: base(name), dir: r.A == 1, size: r.B, real: r.S}, nil
}

// Lstat is Stat: the virtual disk has no symbolic links.
func Lstat(name string) (FileInfo, error) {
	if !kern.Active() {
		return orig.Lstat(name)
	}
	r := kern.Call(kern.Req{Op: kern.OpStat, S: VAbs(name), A: 1})
	if r.Status != 0 {
		return nil, pathErr("lstat", name, r.Status)
	}
	return fileInfo{name: base(name), dir: r.A == 1, link: r.A == 2, size: r.B, real: r.S}, nil
}

// Readlink returns the destination of the named symbolic link of the virtual disk.
func Readlink(name string) (string, error) {
	if !kern.Active() {
		return orig.Readlink(name)
	}
	r := kern.Call(kern.Req{Op: kern.OpReadlink, S: VAbs(name)})
	if r.Status != 0 {
		return "", pathErr("readlink", name, r.Status)
	}
	return r.S, nil
}

// VEvalSymlinks is used by simfilepath.EvalSymlinks.
func VEvalSymlinks(abs string) (string, int64) {
	r := kern.Call(kern.Req{Op: kern.OpEvalSymlinks, S: abs})
	return r.S, r.Status
}

// Getwd returns the virtual working directory.
func Getwd() (string, error) {
	if !kern.Active() {
		return orig.Getwd()
	}
	r := kern.Call(kern.Req{Op: kern.OpGetwd})
	if r.Status != 0 {
		return "", orig.NewSyscallError("getwd", syscall.Errno(r.Status))
	}
	return r.S, nil
}

// WriteFile writes data to the named file of the virtual disk.
func WriteFile(name string, data []byte, perm FileMode) error {
	if !kern.Active() {
		return orig.WriteFile(name, data, perm)
	}
	r := kern.Call(kern.Req{Op: kern.OpWriteFile, S: VAbs(name), Data: data})
	if r.Status != 0 {
		return pathErr("open", name, r.Status)
	}
	return nil
}

// ReadDir reads the named directory of the virtual disk, sorted by filename.
func ReadDir(name string) ([]DirEntry, error) {
	if !kern.Active() {
		return orig.ReadDir(name)
	}
	r := kern.Call(kern.Req{Op: kern.OpReadDir, S: VAbs(name)})
	if r.Status != 0 {
		return nil, pathErr("open", name, r.Status)
	}
	out := make([]DirEntry, len(r.Strs))
	for i, n := range r.Strs {
		out[i] = fileInfo{name: n, dir: r.Data[i] == 1}
	}
	return out, nil
}

// VReadDirNames is used by simfilepath.Walk.
func VReadDirNames(abs string) ([]string, int64) {
	r := kern.Call(kern.Req{Op: kern.OpReadDir, S: abs})
	return r.Strs, r.Status
}
