// Package simruntime replaces package runtime: the CPU count comes from the
// simulated world.
package simruntime

import (
	orig "runtime"

	"verifsim/sim/kern"
)

// NumCPU returns the number of CPUs of the simulated machine.
func NumCPU() int {
	if !kern.Active() {
		return orig.NumCPU()
	}
	return int(kern.Call(kern.Req{Op: kern.OpNumCPU}).A)
}

// GOMAXPROCS reports the simulated GOMAXPROCS setting, which may differ from the number of CPUs (it cannot be changed).
func GOMAXPROCS(n int) int {
	if !kern.Active() {
		return orig.GOMAXPROCS(n)
	}
	return int(kern.Call(kern.Req{Op: kern.OpNumCPU, A: 1}).A)
}
