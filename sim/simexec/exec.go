// Package simexec replaces os/exec: commands are simulated processes in the
// kernel's process table whose behaviour is decided by the run's tool model.
// The parts of os/exec's contract actionlint depends on are reproduced: a
// StdinPipe that can be written before Start (64 KiB pipe buffer), Output /
// CombinedOutput, *ExitError with ExitCode() == -1 for signals and the Stderr
// capture rule of Output.
package simexec

import (
	"bytes"
	"context"
	"errors"
	"io"
	"io/fs"
	"strconv"
	"strings"
	"sync"
	"syscall"

	"verifsim/sim/kern"
	"verifsim/sim/simrt"
	"verifsim/sim/simsync"
)

// ErrNotFound is the error resulting if a path search failed to find an executable file.
var ErrNotFound = errors.New("executable file not found in $PATH")

// ErrDot and ErrWaitDelay exist for source compatibility.
var (
	ErrDot       = errors.New("cannot run executable found relative to current directory")
	ErrWaitDelay = errors.New("exec: WaitDelay expired before I/O complete")
)

// Error is returned by LookPath when it fails to classify a file as an executable.
type Error struct {
	Name string
	Err  error
}

func (e *Error) Error() string { return "exec: " + strconv.Quote(e.Name) + ": " + e.Err.Error() }
func (e *Error) Unwrap() error { return e.Err }

// ExitError reports an unsuccessful exit by a command.
type ExitError struct {
	Stderr   []byte
	code     int
	signaled bool
}

// ExitCode returns the exit code of the exited process, or -1 if it was terminated by a signal.
func (e *ExitError) ExitCode() int {
	if e.signaled {
		return -1
	}
	return e.code
}

// Exited reports whether the program has exited (false when it was signaled).
func (e *ExitError) Exited() bool  { return !e.signaled }
func (e *ExitError) Success() bool { return false }
func (e *ExitError) Pid() int      { return 0 }
func (e *ExitError) String() string {
	if e.signaled {
		return "signal: killed"
	}
	return "exit status " + strconv.Itoa(e.code)
}
func (e *ExitError) Error() string { return e.String() }

// LookPath searches for an executable named file in the simulated PATH.
func LookPath(file string) (string, error) {
	if !kern.Active() {
		return "", &Error{Name: file, Err: ErrNotFound}
	}
	r := kern.Call(kern.Req{Op: kern.OpLookPath, S: file})
	if r.Status != 0 {
		return "", &Error{Name: file, Err: ErrNotFound}
	}
	return r.S, nil
}

const pipeBuf = 65536

// Cmd represents a simulated external command.
type Cmd struct {
	Path   string
	Args   []string
	Env    []string
	Dir    string
	Stdin  io.Reader
	Stdout io.Writer
	Stderr io.Writer
	Err    error
	// Process is the simulated process once it has been started.
	Process *Process

	ctx      context.Context
	pipe     *stdinPipe
	pid      int
	started  bool
	finished bool
	outBuf   *bytes.Buffer
	errBuf   *bytes.Buffer
	outPipe  *outPipe
	errPipe  *outPipe
	res      *kern.Rep // what the finished process left behind, once collected
}

// Command returns the Cmd struct to execute the named program with the given arguments.
func Command(name string, arg ...string) *Cmd {
	return &Cmd{Path: name, Args: append([]string{name}, arg...)}
}

// CommandContext is like Command but includes a context (cancellation is not modelled).
func CommandContext(ctx context.Context, name string, arg ...string) *Cmd {
	c := Command(name, arg...)
	c.ctx = ctx
	return c
}

func (c *Cmd) String() string { return strings.Join(c.Args, " ") }

type stdinPipe struct {
	// hbmu orders, for the race detector, the accesses of the writer's goroutine and of the
	// goroutine that starts the process (an os pipe is safe for that; the baton that makes these
	// accesses exclusive is invisible to the detector). Never held across a kernel call.
	hbmu   sync.Mutex
	c      *Cmd
	buf    []byte
	closed bool
	gate   simsync.WaitGroup // open once Start has been attempted
	gated  bool
}

func (p *stdinPipe) hb() {
	if p != nil {
		p.hbmu.Lock()
		p.hbmu.Unlock() //nolint:staticcheck // happens-before edge only
	}
}

// release lets a writer that filled the pipe before the process was started go on.
func (p *stdinPipe) release() {
	if p != nil && p.gated {
		p.gated = false
		p.gate.Done()
	}
}

func (p *stdinPipe) Write(b []byte) (int, error) {
	p.hb()
	defer p.hb()
	if p.closed {
		return 0, fs.ErrClosed
	}
	written := 0
	if !p.c.started && !p.c.finished {
		room := pipeBuf - len(p.buf)
		if len(b) <= room {
			p.buf = append(p.buf, b...)
			return len(b), nil
		}
		// a real pipe takes what fits and blocks the writer: nobody reads before the process is
		// started. A writer that is also the one who would start the process waits for ever (the
		// kernel reports the deadlock); a writer on a goroutine of its own goes on after Start.
		p.buf = append(p.buf, b[:room]...)
		b = b[room:]
		written = room
		p.hb()
		kern.Call(kern.Req{Op: kern.OpNote, S: "write to stdin pipe of a process that is not started: pipe buffer full"})
		p.gate.Wait()
		p.hb()
		if !p.c.started {
			// the start failed: the read end is gone
			return written, &fs.PathError{Op: "write", Path: "|1", Err: syscall.EPIPE}
		}
	}
	if p.closed {
		return written, fs.ErrClosed
	}
	r := kern.Call(kern.Req{Op: kern.OpProcStdin, A: int64(p.c.pid), Data: b})
	if r.Status != 0 {
		return written, &fs.PathError{Op: "write", Path: "|1", Err: syscall.Errno(r.Status)}
	}
	return written + len(b), nil
}

func (p *stdinPipe) Close() error {
	p.hb()
	defer p.hb()
	if p.closed {
		return nil
	}
	p.closed = true
	if p.c.started && !p.c.finished {
		kern.Call(kern.Req{Op: kern.OpProcStdin, A: int64(p.c.pid), B: 1})
	}
	return nil
}

// StdinPipe returns a pipe that will be connected to the command's standard input.
func (c *Cmd) StdinPipe() (io.WriteCloser, error) {
	if c.Stdin != nil {
		return nil, errors.New("exec: Stdin already set")
	}
	if c.started {
		return nil, errors.New("exec: StdinPipe after process started")
	}
	if kern.Active() && !kern.Aborting() {
		if r := kern.Call(kern.Req{Op: kern.OpPipeOpen}); r.Status != 0 {
			return nil, &fs.PathError{Op: "pipe", Path: "|0", Err: syscall.Errno(r.Status)}
		}
	}
	c.pipe = &stdinPipe{c: c, gated: true}
	c.pipe.gate.Add(1)
	c.Stdin = pipeMarker{}
	return c.pipe, nil
}

type pipeMarker struct{}

func (pipeMarker) Read([]byte) (int, error) { return 0, io.EOF }

// Start starts the simulated process.
func (c *Cmd) Start() error {
	c.pipe.hb()
	defer c.pipe.hb()
	if c.started {
		return errors.New("exec: already started")
	}
	if c.Err != nil {
		return c.Err
	}
	var stdin []byte
	closed := true
	taken := 0
	if c.pipe != nil {
		// what was written into the pipe so far goes to the process with its start; a writer on
		// another goroutine may write or close while the start is in progress (handled below)
		stdin = c.pipe.buf
		taken = len(stdin)
		closed = c.pipe.closed
	} else if c.Stdin != nil {
		b, err := io.ReadAll(c.Stdin)
		if err != nil {
			return err
		}
		stdin = b
	}
	var flags int64
	if closed {
		flags |= 1
	}
	if c.Stdout != nil && c.Stdout == c.Stderr {
		flags |= 2
	}
	if c.pipe != nil {
		flags |= 4
	}
	argv := append([]string{c.Path}, c.Args[min(1, len(c.Args)):]...)
	if c.Dir != "" && !strings.HasPrefix(c.Path, "/") && strings.Contains(c.Path, "/") {
		// like os/exec: a relative program path is resolved against Cmd.Dir. The simulated tools
		// live where a lookup from the working directory found them, so from any other directory
		// that relative path names nothing.
		dir := c.Dir
		if !strings.HasPrefix(dir, "/") {
			dir = kern.Cwd() + "/" + dir
		}
		if kern.CleanPath(dir) != kern.CleanPath(kern.Cwd()) {
			kern.Call(kern.Req{Op: kern.OpNote, S: "exec: " + c.Path + " not found relative to " + c.Dir})
			if c.pipe != nil {
				kern.Call(kern.Req{Op: kern.OpPipeOpen, A: -1})
			}
			c.finished = true
			c.pipe.release()
			return &fs.PathError{Op: "fork/exec", Path: c.Path, Err: syscall.ENOENT}
		}
	}
	c.pipe.hb()
	r := kern.Call(kern.Req{Op: kern.OpProcStart, Strs: argv, Data: stdin, A: flags})
	c.pipe.hb()
	c.pid = int(r.A)
	if r.Status != 0 {
		c.finished = true
		c.pipe.release()
		return &fs.PathError{Op: "fork/exec", Path: c.Path, Err: syscall.Errno(r.Status)}
	}
	if c.pipe != nil {
		// the pipe's content, in order, including what another goroutine appended meanwhile; only
		// then do writers talk to the process directly
		for len(c.pipe.buf) > taken {
			chunk := c.pipe.buf[taken:]
			taken = len(c.pipe.buf)
			c.pipe.hb()
			kern.Call(kern.Req{Op: kern.OpProcStdin, A: int64(c.pid), Data: chunk})
			c.pipe.hb()
		}
	}
	c.started = true
	c.pipe.hb()
	if c.pipe != nil && c.pipe.closed && !closed {
		kern.Call(kern.Req{Op: kern.OpProcStdin, A: int64(c.pid), B: 1})
	}
	c.pipe.release()
	c.Process = &Process{Pid: 10000 + c.pid, pid: c.pid}
	if c.ctx != nil && c.ctx.Done() != nil {
		// like os/exec: when the context is done the process is killed
		ctx, proc := c.ctx, c.Process
		kern.Go("ctxwatch", func() {
			simrt.Recv(ctx.Done(), "exec: context of a running command")
			proc.Kill()
		})
	}
	return nil
}

// Process mirrors the part of os.Process the code under test can reach through Cmd.Process.
type Process struct {
	Pid int
	pid int
}

// Kill terminates the simulated process.
func (p *Process) Kill() error {
	if !kern.Active() || kern.Aborting() {
		return nil
	}
	if r := kern.Call(kern.Req{Op: kern.OpProcKill, A: int64(p.pid)}); r.Status != 0 {
		return errors.New("os: process already finished")
	}
	return nil
}

// Signal delivers a signal; every signal the code under test could send terminates the tool.
func (p *Process) Signal(sig any) error { return p.Kill() }

// Release is a no-op.
func (p *Process) Release() error { return nil }

// Wait waits for the simulated process to exit and delivers its output.
func (c *Cmd) Wait() error {
	if !c.started {
		return errors.New("exec: not started")
	}
	if c.finished {
		return errors.New("exec: Wait was already called")
	}
	r := c.collect()
	c.finished = true
	if r.Status != 0 {
		return errors.New("exec: Wait was already called")
	}
	for _, p := range []*outPipe{c.outPipe, c.errPipe} {
		if p == nil {
			continue
		}
		if !p.closed && len(p.data(r))-p.off > pipeBuf {
			// the process cannot have exited: it is blocked writing into a full pipe that nobody reads
			kern.Call(kern.Req{Op: kern.OpBlockForever, S: "wait for a process that is blocked writing to its full output pipe (nobody reads it)"})
		}
		// like os/exec, Wait closes the read ends: what was not read before is lost
		p.closed = true
	}
	if c.Stdout != nil && c.outPipe == nil {
		c.Stdout.Write(r.Data)
	}
	if c.Stderr != nil && c.errPipe == nil {
		io.WriteString(c.Stderr, r.S)
	}
	if r.B == 1 {
		return &ExitError{signaled: true}
	}
	if r.A != 0 {
		return &ExitError{code: int(r.A)}
	}
	return nil
}

// Run starts the command and waits for it to complete.
func (c *Cmd) Run() error {
	if err := c.Start(); err != nil {
		return err
	}
	return c.Wait()
}

// Output runs the command and returns its standard output. If the command
// fails and Stderr was nil, the ExitError carries the captured standard error.
func (c *Cmd) Output() ([]byte, error) {
	if c.Stdout != nil {
		return nil, errors.New("exec: Stdout already set")
	}
	var stdout bytes.Buffer
	c.Stdout = &stdout
	captureErr := c.Stderr == nil
	var stderr bytes.Buffer
	if captureErr {
		c.Stderr = &stderr
	}
	err := c.Run()
	if err != nil && captureErr {
		if ee, ok := err.(*ExitError); ok {
			ee.Stderr = stderr.Bytes()
		}
	}
	return stdout.Bytes(), err
}

// CombinedOutput runs the command and returns its combined standard output and standard error.
func (c *Cmd) CombinedOutput() ([]byte, error) {
	if c.Stdout != nil {
		return nil, errors.New("exec: Stdout already set")
	}
	if c.Stderr != nil {
		return nil, errors.New("exec: Stderr already set")
	}
	var b bytes.Buffer
	c.Stdout = &b
	c.Stderr = &b
	err := c.Run()
	return b.Bytes(), err
}

// collect waits (once) for the simulated process to end and keeps what it left behind.
func (c *Cmd) collect() kern.Rep {
	if c.res == nil {
		r := kern.Call(kern.Req{Op: kern.OpProcWait, A: int64(c.pid)})
		c.res = &r
	}
	return *c.res
}

// outPipe is the read end of a pipe connected to the standard output (or standard error) of the
// command. The model is coarse in time and exact in what matters to callers: a Read blocks until the
// process has ended and then delivers its output piece by piece; a process that wrote more than the
// pipe holds cannot end before somebody reads it (Wait blocks for ever in that case - the kernel
// reports the deadlock); Wait closes the read end, and what was not read by then is lost.
type outPipe struct {
	c      *Cmd
	stderr bool
	off    int
	closed bool
}

func (p *outPipe) data(r kern.Rep) []byte {
	if p.stderr {
		return []byte(r.S)
	}
	return r.Data
}

func (p *outPipe) Read(b []byte) (int, error) {
	if p.closed {
		return 0, fs.ErrClosed
	}
	if !p.c.started {
		kern.Call(kern.Req{Op: kern.OpBlockForever, S: "read from the output pipe of a process that is not started"})
	}
	d := p.data(p.c.collect())
	if p.off >= len(d) {
		return 0, io.EOF
	}
	n := copy(b, d[p.off:])
	if n > pipeBuf {
		n = pipeBuf
	}
	p.off += n
	return n, nil
}

func (p *outPipe) Close() error {
	p.closed = true
	return nil
}

// StdoutPipe returns a pipe that will be connected to the command's standard output.
func (c *Cmd) StdoutPipe() (io.ReadCloser, error) {
	if c.Stdout != nil {
		return nil, errors.New("exec: Stdout already set")
	}
	if c.started {
		return nil, errors.New("exec: StdoutPipe after process started")
	}
	c.outPipe = &outPipe{c: c}
	c.Stdout = io.Discard
	return c.outPipe, nil
}

// StderrPipe returns a pipe that will be connected to the command's standard error.
func (c *Cmd) StderrPipe() (io.ReadCloser, error) {
	if c.Stderr != nil {
		return nil, errors.New("exec: Stderr already set")
	}
	if c.started {
		return nil, errors.New("exec: StderrPipe after process started")
	}
	c.errPipe = &outPipe{c: c, stderr: true}
	c.Stderr = io.Discard
	return c.errPipe, nil
}
func (c *Cmd) Environ() []string { return c.Env }
