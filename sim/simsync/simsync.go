// Package simsync replaces package sync for the code under test: Mutex,
// RWMutex, WaitGroup and Once are simulated by the kernel (blocking is
// explicit, the scheduler chooses who proceeds); in the race lane each also
// drives a shadow real primitive so that the race detector sees exactly the
// happens-before edges the real program has.
package simsync

import (
	"sync"

	"verifsim/sim/kern"
)

func call(op kern.Op, id *uint64, a, b int64) kern.Rep {
	return kern.Call(kern.Req{Op: op, Obj: kern.ObjID(id), A: a, B: b})
}

// Mutex simulates sync.Mutex.
type Mutex struct {
	real sync.Mutex // used outside simulated runs, and as the shadow in the race lane
	id   uint64
}

func (m *Mutex) Lock() {
	if !kern.Active() {
		m.real.Lock()
		return
	}
	call(kern.OpLock, &m.id, 0, 0)
	if kern.RaceLane && !kern.Aborting() {
		m.real.Lock()
	}
}

func (m *Mutex) TryLock() bool {
	if !kern.Active() {
		return m.real.TryLock()
	}
	panic("simsync: Mutex.TryLock is not modelled")
}

func (m *Mutex) Unlock() {
	if !kern.Active() {
		m.real.Unlock()
		return
	}
	if kern.RaceLane && !kern.Aborting() {
		m.real.Unlock()
	}
	if r := call(kern.OpUnlock, &m.id, 0, 0); r.Status == kern.StPanicUnlock {
		panic("sync: unlock of unlocked mutex")
	}
}

// RWMutex simulates sync.RWMutex.
type RWMutex struct {
	real sync.RWMutex
	id   uint64
}

func (m *RWMutex) Lock() {
	if !kern.Active() {
		m.real.Lock()
		return
	}
	call(kern.OpLock, &m.id, 0, 0)
	if kern.RaceLane && !kern.Aborting() {
		m.real.Lock()
	}
}

func (m *RWMutex) Unlock() {
	if !kern.Active() {
		m.real.Unlock()
		return
	}
	if kern.RaceLane && !kern.Aborting() {
		m.real.Unlock()
	}
	if r := call(kern.OpUnlock, &m.id, 0, 0); r.Status == kern.StPanicUnlock {
		panic("sync: Unlock of unlocked RWMutex")
	}
}

func (m *RWMutex) RLock() {
	if !kern.Active() {
		m.real.RLock()
		return
	}
	call(kern.OpRLock, &m.id, 0, 0)
	if kern.RaceLane && !kern.Aborting() {
		m.real.RLock()
	}
}

func (m *RWMutex) RUnlock() {
	if !kern.Active() {
		m.real.RUnlock()
		return
	}
	if kern.RaceLane && !kern.Aborting() {
		m.real.RUnlock()
	}
	if r := call(kern.OpRUnlock, &m.id, 0, 0); r.Status == kern.StPanicRUnlock {
		panic("sync: RUnlock of unlocked RWMutex")
	}
}

func (m *RWMutex) RLocker() sync.Locker { return rlocker{m} }

type rlocker struct{ m *RWMutex }

func (r rlocker) Lock()   { r.m.RLock() }
func (r rlocker) Unlock() { r.m.RUnlock() }

// WaitGroup simulates sync.WaitGroup.
type WaitGroup struct {
	real sync.WaitGroup
	id   uint64
}

func (w *WaitGroup) Add(n int) {
	if !kern.Active() {
		w.real.Add(n)
		return
	}
	if kern.RaceLane && !kern.Aborting() {
		w.real.Add(n)
	}
	if r := call(kern.OpWGAdd, &w.id, int64(n), 0); r.Status == kern.StPanicNegativeWG {
		panic("sync: negative WaitGroup counter")
	}
}

func (w *WaitGroup) Done() { w.Add(-1) }

func (w *WaitGroup) Wait() {
	if !kern.Active() {
		w.real.Wait()
		return
	}
	if r := call(kern.OpWGWait, &w.id, 0, 0); r.Status == kern.StPanicWGReuse {
		panic("sync: WaitGroup is reused before previous Wait has returned")
	}
	if kern.RaceLane && !kern.Aborting() {
		w.real.Wait()
	}
}

// Once simulates sync.Once with a simulated mutex, so that a second caller
// parks in the kernel while the first is still inside f.
type Once struct {
	m    Mutex
	done bool
}

func (o *Once) Do(f func()) {
	o.m.Lock()
	defer o.m.Unlock()
	if !o.done {
		defer func() { o.done = true }()
		f()
	}
}

// OnceFunc, OnceValue and OnceValues are built on the simulated Once (the real ones block natively,
// which a task holding the baton must never do).
func OnceFunc(f func()) func() {
	var o Once
	return func() { o.Do(f) }
}

func OnceValue[T any](f func() T) func() T {
	var o Once
	var v T
	return func() T {
		o.Do(func() { v = f() })
		return v
	}
}

func OnceValues[T1, T2 any](f func() (T1, T2)) func() (T1, T2) {
	var o Once
	var v1 T1
	var v2 T2
	return func() (T1, T2) {
		o.Do(func() { v1, v2 = f() })
		return v1, v2
	}
}

// Pool is sync.Pool behind the seam: the real one keeps per-P free lists and is emptied by the
// garbage collector, so what Get returns would depend on which OS thread carries the running task
// and on GC timing - neither of which the simulator decides. Here the free objects are one LIFO
// list: Get returns the most recently Put object if there is one (the reuse a pool exists for, and
// the worst case for an object that was put back too early), else New().
type Pool struct {
	New func() any

	mu    sync.Mutex
	items []any
}

// Get takes the most recently returned object, or makes a new one.
func (p *Pool) Get() any {
	p.mu.Lock()
	if n := len(p.items); n > 0 {
		x := p.items[n-1]
		p.items[n-1] = nil
		p.items = p.items[:n-1]
		p.mu.Unlock()
		return x
	}
	p.mu.Unlock()
	if p.New != nil {
		return p.New()
	}
	return nil
}

// Put returns an object to the pool.
func (p *Pool) Put(x any) {
	if x == nil {
		return
	}
	p.mu.Lock()
	p.items = append(p.items, x)
	p.mu.Unlock()
}

// Map is sync.Map behind the seam. The real one is safe and, for everything but Range, a
// deterministic function of the calls made on it; Range however visits the entries in the order of
// Go's randomised map iteration, which no seed decides. Here the entries keep their insertion
// order and Range visits them in a permutation of it chosen by MapRangeMode (0: insertion order),
// so a result that depends on the order replays and can be told apart from one that does not.
type Map struct {
	mu    sync.Mutex // a real mutex: never held across a kernel call or a callback
	m     map[any]any
	order []any
}

// MapRangeMode, when set (by the harness), picks the order of the next Range: 0 insertion order,
// 1 reversed, 2 rotated by one, larger values a pseudo-random permutation derived from the value.
var MapRangeMode func() uint32

func (m *Map) Load(key any) (value any, ok bool) {
	m.mu.Lock()
	defer m.mu.Unlock()
	value, ok = m.m[key]
	return
}

func (m *Map) storeLocked(key, value any) {
	if m.m == nil {
		m.m = map[any]any{}
	}
	if _, ok := m.m[key]; !ok {
		m.order = append(m.order, key)
	}
	m.m[key] = value
}

func (m *Map) deleteLocked(key any) {
	if _, ok := m.m[key]; !ok {
		return
	}
	delete(m.m, key)
	for i, k := range m.order {
		if k == key {
			m.order = append(m.order[:i:i], m.order[i+1:]...)
			break
		}
	}
}

func (m *Map) Store(key, value any) {
	m.mu.Lock()
	defer m.mu.Unlock()
	m.storeLocked(key, value)
}

func (m *Map) Clear() {
	m.mu.Lock()
	defer m.mu.Unlock()
	m.m, m.order = nil, nil
}

func (m *Map) LoadOrStore(key, value any) (actual any, loaded bool) {
	m.mu.Lock()
	defer m.mu.Unlock()
	if v, ok := m.m[key]; ok {
		return v, true
	}
	m.storeLocked(key, value)
	return value, false
}

func (m *Map) LoadAndDelete(key any) (value any, loaded bool) {
	m.mu.Lock()
	defer m.mu.Unlock()
	value, loaded = m.m[key]
	m.deleteLocked(key)
	return
}

func (m *Map) Delete(key any) { m.LoadAndDelete(key) }

func (m *Map) Swap(key, value any) (previous any, loaded bool) {
	m.mu.Lock()
	defer m.mu.Unlock()
	previous, loaded = m.m[key]
	m.storeLocked(key, value)
	return
}

func (m *Map) CompareAndSwap(key, old, new any) (swapped bool) {
	m.mu.Lock()
	defer m.mu.Unlock()
	if v, ok := m.m[key]; ok && v == old {
		m.m[key] = new
		return true
	}
	return false
}

func (m *Map) CompareAndDelete(key, old any) (deleted bool) {
	m.mu.Lock()
	defer m.mu.Unlock()
	if v, ok := m.m[key]; ok && v == old {
		m.deleteLocked(key)
		return true
	}
	return false
}

func (m *Map) Range(f func(key, value any) bool) {
	m.mu.Lock()
	keys := append([]any(nil), m.order...)
	m.mu.Unlock()
	var md uint32
	if MapRangeMode != nil && len(keys) > 1 {
		md = MapRangeMode()
	}
	switch {
	case md == 0 || len(keys) < 2:
	case md == 1:
		for i, j := 0, len(keys)-1; i < j; i, j = i+1, j-1 {
			keys[i], keys[j] = keys[j], keys[i]
		}
	case md == 2:
		first := keys[0]
		copy(keys, keys[1:])
		keys[len(keys)-1] = first
	default:
		s := uint64(md)*0x9e3779b97f4a7c15 + uint64(len(keys))
		for i := len(keys) - 1; i > 0; i-- {
			s += 0x9e3779b97f4a7c15
			z := s
			z = (z ^ (z >> 30)) * 0xbf58476d1ce4e5b9
			z = (z ^ (z >> 27)) * 0x94d049bb133111eb
			z ^= z >> 31
			j := int(z % uint64(i+1))
			keys[i], keys[j] = keys[j], keys[i]
		}
	}
	for _, k := range keys {
		v, ok := m.Load(k)
		if !ok {
			continue
		}
		if !f(k, v) {
			return
		}
	}
}
