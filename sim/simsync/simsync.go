// Package simsync replaces package sync for the code under test: Mutex,
// RWMutex, WaitGroup and Once are simulated by the kernel (blocking is
// explicit, the scheduler chooses who proceeds); in the race lane each also
// drives a shadow real primitive so that the race detector sees exactly the
// happens-before edges the real program has.
package simsync

import (
	"sync"

	"verifsim/sim/kern"
)

func call(op kern.Op, id *uint64, a, b int64) kern.Rep {
	return kern.Call(kern.Req{Op: op, Obj: kern.ObjID(id), A: a, B: b})
}

// Mutex simulates sync.Mutex.
type Mutex struct {
	real sync.Mutex // used outside simulated runs, and as the shadow in the race lane
	id   uint64
}

func (m *Mutex) Lock() {
	if !kern.Active() {
		m.real.Lock()
		return
	}
	call(kern.OpLock, &m.id, 0, 0)
	if kern.RaceLane && !kern.Aborting() {
		m.real.Lock()
	}
}

func (m *Mutex) TryLock() bool {
	if !kern.Active() {
		return m.real.TryLock()
	}
	panic("simsync: Mutex.TryLock is not modelled")
}

func (m *Mutex) Unlock() {
	if !kern.Active() {
		m.real.Unlock()
		return
	}
	if kern.RaceLane && !kern.Aborting() {
		m.real.Unlock()
	}
	if r := call(kern.OpUnlock, &m.id, 0, 0); r.Status == kern.StPanicUnlock {
		panic("sync: unlock of unlocked mutex")
	}
}

// RWMutex simulates sync.RWMutex.
type RWMutex struct {
	real sync.RWMutex
	id   uint64
}

func (m *RWMutex) Lock() {
	if !kern.Active() {
		m.real.Lock()
		return
	}
	call(kern.OpLock, &m.id, 0, 0)
	if kern.RaceLane && !kern.Aborting() {
		m.real.Lock()
	}
}

func (m *RWMutex) Unlock() {
	if !kern.Active() {
		m.real.Unlock()
		return
	}
	if kern.RaceLane && !kern.Aborting() {
		m.real.Unlock()
	}
	if r := call(kern.OpUnlock, &m.id, 0, 0); r.Status == kern.StPanicUnlock {
		panic("sync: Unlock of unlocked RWMutex")
	}
}

func (m *RWMutex) RLock() {
	if !kern.Active() {
		m.real.RLock()
		return
	}
	call(kern.OpRLock, &m.id, 0, 0)
	if kern.RaceLane && !kern.Aborting() {
		m.real.RLock()
	}
}

func (m *RWMutex) RUnlock() {
	if !kern.Active() {
		m.real.RUnlock()
		return
	}
	if kern.RaceLane && !kern.Aborting() {
		m.real.RUnlock()
	}
	if r := call(kern.OpRUnlock, &m.id, 0, 0); r.Status == kern.StPanicRUnlock {
		panic("sync: RUnlock of unlocked RWMutex")
	}
}

func (m *RWMutex) RLocker() sync.Locker { return rlocker{m} }

type rlocker struct{ m *RWMutex }

func (r rlocker) Lock()   { r.m.RLock() }
func (r rlocker) Unlock() { r.m.RUnlock() }

// WaitGroup simulates sync.WaitGroup.
type WaitGroup struct {
	real sync.WaitGroup
	id   uint64
}

func (w *WaitGroup) Add(n int) {
	if !kern.Active() {
		w.real.Add(n)
		return
	}
	if kern.RaceLane && !kern.Aborting() {
		w.real.Add(n)
	}
	if r := call(kern.OpWGAdd, &w.id, int64(n), 0); r.Status == kern.StPanicNegativeWG {
		panic("sync: negative WaitGroup counter")
	}
}

func (w *WaitGroup) Done() { w.Add(-1) }

func (w *WaitGroup) Wait() {
	if !kern.Active() {
		w.real.Wait()
		return
	}
	if r := call(kern.OpWGWait, &w.id, 0, 0); r.Status == kern.StPanicWGReuse {
		panic("sync: WaitGroup is reused before previous Wait has returned")
	}
	if kern.RaceLane && !kern.Aborting() {
		w.real.Wait()
	}
}

// Once simulates sync.Once with a simulated mutex, so that a second caller
// parks in the kernel while the first is still inside f.
type Once struct {
	m    Mutex
	done bool
}

func (o *Once) Do(f func()) {
	o.m.Lock()
	defer o.m.Unlock()
	if !o.done {
		defer func() { o.done = true }()
		f()
	}
}

// OnceFunc, OnceValue and OnceValues are built on the simulated Once (the real ones block natively,
// which a task holding the baton must never do).
func OnceFunc(f func()) func() {
	var o Once
	return func() { o.Do(f) }
}

func OnceValue[T any](f func() T) func() T {
	var o Once
	var v T
	return func() T {
		o.Do(func() { v = f() })
		return v
	}
}

func OnceValues[T1, T2 any](f func() (T1, T2)) func() (T1, T2) {
	var o Once
	var v1 T1
	var v2 T2
	return func() (T1, T2) {
		o.Do(func() { v1, v2 = f() })
		return v1, v2
	}
}

// Pool is sync.Pool behind the seam: the real one keeps per-P free lists and is emptied by the
// garbage collector, so what Get returns would depend on which OS thread carries the running task
// and on GC timing - neither of which the simulator decides. Here the free objects are one LIFO
// list: Get returns the most recently Put object if there is one (the reuse a pool exists for, and
// the worst case for an object that was put back too early), else New().
type Pool struct {
	New func() any

	mu    sync.Mutex
	items []any
}

// Get takes the most recently returned object, or makes a new one.
func (p *Pool) Get() any {
	p.mu.Lock()
	if n := len(p.items); n > 0 {
		x := p.items[n-1]
		p.items[n-1] = nil
		p.items = p.items[:n-1]
		p.mu.Unlock()
		return x
	}
	p.mu.Unlock()
	if p.New != nil {
		return p.New()
	}
	return nil
}

// Put returns an object to the pool.
func (p *Pool) Put(x any) {
	if x == nil {
		return
	}
	p.mu.Lock()
	p.items = append(p.items, x)
	p.mu.Unlock()
}
