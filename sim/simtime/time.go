// Package simtime replaces package time: Now reads the simulated clock and
// Sleep advances it.
package simtime

import (
	orig "time"

	"verifsim/sim/kern"
)

// Now returns the simulated time.
func Now() Time {
	if !kern.Active() {
		return orig.Now()
	}
	r := kern.Call(kern.Req{Op: kern.OpNow})
	return orig.Unix(0, kern.EpochNano()).Add(Duration(r.A))
}

// Since returns the simulated time elapsed since t.
func Since(t Time) Duration { return Now().Sub(t) }

// Until returns the simulated duration until t.
func Until(t Time) Duration { return t.Sub(Now()) }

// Sleep parks the task until the simulated clock has advanced by d.
func Sleep(d Duration) {
	if !kern.Active() {
		orig.Sleep(d)
		return
	}
	kern.Call(kern.Req{Op: kern.OpSleep, A: int64(d)})
}
