// Package simtime replaces package time: Now reads the simulated clock and
// Sleep advances it.
package simtime

import (
	"sync"
	orig "time"

	"verifsim/sim/kern"
)

// Now returns the simulated time.
func Now() Time {
	if !kern.Active() {
		return orig.Now()
	}
	r := kern.Call(kern.Req{Op: kern.OpNow})
	return orig.Unix(0, kern.EpochNano()).Add(Duration(r.A))
}

// Since returns the simulated time elapsed since t.
func Since(t Time) Duration { return Now().Sub(t) }

// Until returns the simulated duration until t.
func Until(t Time) Duration { return t.Sub(Now()) }

// Sleep parks the task until the simulated clock has advanced by d.
func Sleep(d Duration) {
	if !kern.Active() {
		orig.Sleep(d)
		return
	}
	kern.Call(kern.Req{Op: kern.OpSleep, A: int64(d)})
}

// Timer mirrors time.Timer on the simulated clock: a task sleeps for the duration and then
// delivers (unless the timer was stopped or reset meanwhile).
type Timer struct {
	C <-chan Time

	c    chan Time
	f    func()
	mu   sync.Mutex
	gen  int  // incremented by Stop and Reset: a sleeper of an older generation does nothing
	live bool // a delivery is still pending
	real *orig.Timer
}

func (t *Timer) arm(d Duration) {
	t.mu.Lock()
	t.gen++
	gen := t.gen
	t.live = true
	t.mu.Unlock()
	kern.Go("timer", func() {
		Sleep(d)
		t.mu.Lock()
		fire := t.live && t.gen == gen
		if fire {
			t.live = false
		}
		t.mu.Unlock()
		if !fire {
			return
		}
		if t.f != nil {
			t.f()
			return
		}
		select {
		case t.c <- Now():
		default:
		}
	})
}

// NewTimer creates a Timer that sends the simulated time on its channel after d.
func NewTimer(d Duration) *Timer {
	if !kern.Active() {
		rt := orig.NewTimer(d)
		return &Timer{C: rt.C, real: rt}
	}
	c := make(chan Time, 1)
	t := &Timer{C: c, c: c}
	t.arm(d)
	return t
}

// AfterFunc runs f in its own task after d of simulated time.
func AfterFunc(d Duration, f func()) *Timer {
	if !kern.Active() {
		return &Timer{real: orig.AfterFunc(d, f)}
	}
	t := &Timer{f: f}
	t.arm(d)
	return t
}

// After is NewTimer(d).C.
func After(d Duration) <-chan Time { return NewTimer(d).C }

// Stop prevents the Timer from firing; it reports whether it was still pending.
func (t *Timer) Stop() bool {
	if t.real != nil {
		return t.real.Stop()
	}
	t.mu.Lock()
	was := t.live
	t.live = false
	t.gen++
	t.mu.Unlock()
	return was
}

// Reset changes the timer to expire after d.
func (t *Timer) Reset(d Duration) bool {
	if t.real != nil {
		return t.real.Reset(d)
	}
	was := t.Stop()
	t.arm(d)
	return was
}
