package simtime_test

import (
	"testing"
	"time"

	"verifsim/sim/kern"
	"verifsim/sim/simrt"
	"verifsim/sim/simtime"
)

func TestTimersRunOnTheSimulatedClock(t *testing.T) {
	var fired, stoppedFired bool
	var waited time.Duration
	start := time.Now()
	res := kern.Run(kern.Config{}, func() {
		t0 := simtime.Now()
		stopped := simtime.AfterFunc(time.Hour, func() { stoppedFired = true })
		simtime.AfterFunc(30*time.Minute, func() { fired = true })
		stopped.Stop()
		simrt.Recv(simtime.After(2*time.Hour), "after") // parks; the kernel jumps the clock
		waited = simtime.Since(t0)
	})
	if res.Failed() {
		t.Fatalf("%+v", res)
	}
	if !fired || stoppedFired || waited < 2*time.Hour {
		t.Fatalf("fired=%v stoppedFired=%v waited=%v", fired, stoppedFired, waited)
	}
	if time.Since(start) > 5*time.Second {
		t.Fatal("simulated hours took real seconds")
	}
}
