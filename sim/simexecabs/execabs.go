// Package simexecabs replaces golang.org/x/sys/execabs with the simulated os/exec.
package simexecabs

import (
	"context"

	"verifsim/sim/simexec"
)

var ErrNotFound = simexec.ErrNotFound

type Cmd = simexec.Cmd
type Error = simexec.Error
type ExitError = simexec.ExitError

func LookPath(file string) (string, error)    { return simexec.LookPath(file) }
func Command(name string, arg ...string) *Cmd { return simexec.Command(name, arg...) }
func CommandContext(ctx context.Context, name string, arg ...string) *Cmd {
	return simexec.CommandContext(ctx, name, arg...)
}
