// Package simrt is the runtime support the rewritten actionlint sources call:
// controlled map iteration order and task spawning for `go` statements.
package simrt

import (
	"reflect"
	"runtime"
	"sort"
	"strconv"
	"sync"

	"verifsim/sim/kern"
)

// MaxSites bounds the number of instrumented map-range sites.
const MaxSites = 1024

// Per-site iteration mode for the current run: 0 identity (sorted keys),
// 1 reversed, 2 rotated by one, >= 3 a permutation derived from the mode value
// and the key set. Plain words, written by the harness between runs and read
// by the single running task.
var modes [MaxSites]uint32
var hits [MaxSites]uint32  // how often the site iterated a map with >= 2 keys
var multi [MaxSites]uint32 // ... while in a non-identity mode

//go:norace
func mode(i int) uint32 {
	if i < 0 || i >= MaxSites {
		return 0
	}
	return modes[i]
}

//go:norace
func count(i int, n int, m uint32) {
	if i < 0 || i >= MaxSites || n < 2 {
		return
	}
	hits[i]++
	if m != 0 {
		multi[i]++
	}
}

// SetMode sets the iteration mode of one site.
//
//go:norace
func SetMode(site int, m uint32) { modes[site] = m }

// ResetModes sets every site to identity order.
//
//go:norace
func ResetModes() {
	for i := range modes {
		modes[i] = 0
	}
}

// Counters returns and clears the per-site exercise counters.
//
//go:norace
func Counters(n int) (h, m []uint32) {
	h = append(h, hits[:n]...)
	m = append(m, multi[:n]...)
	for i := 0; i < n; i++ {
		hits[i], multi[i] = 0, 0
	}
	return
}

// Ordered is the set of key types with a canonical order.
type Ordered interface {
	~int | ~int8 | ~int16 | ~int32 | ~int64 | ~uint | ~uint8 | ~uint16 | ~uint32 | ~uint64 | ~uintptr | ~float32 | ~float64 | ~string
}

// It iterates a map in the order chosen for its site. Like Go's range it does
// not produce entries deleted before they are reached and it observes values
// updated during the iteration; unlike Go it does not produce entries added
// during the iteration (Go may or may not).
type It[K comparable, V any] struct {
	m    map[K]V
	keys []K
	i    int
	k    K
	v    V
}

// Iter starts an iteration of m at the given site.
func Iter[K Ordered, V any](m map[K]V, site int) *It[K, V] {
	it := &It[K, V]{m: m}
	if len(m) == 0 {
		return it
	}
	ks := make([]K, 0, len(m))
	for k := range m {
		ks = append(ks, k)
	}
	sort.Slice(ks, func(i, j int) bool { return ks[i] < ks[j] })
	it.keys = permute(ks, site)
	return it
}

// IterAny is Iter for key types without a natural order (pointers, structs):
// the canonical order is that of a shallow fingerprint of the key's value
// (for a pointer: of the struct it points to), so it is stable across runs.
func IterAny[K comparable, V any](m map[K]V, site int) *It[K, V] {
	it := &It[K, V]{m: m}
	if len(m) == 0 {
		return it
	}
	type kf struct {
		k K
		f string
	}
	kfs := make([]kf, 0, len(m))
	for k := range m {
		kfs = append(kfs, kf{k, shallowPrint(reflect.ValueOf(k), 0)})
	}
	sort.SliceStable(kfs, func(i, j int) bool { return kfs[i].f < kfs[j].f })
	ks := make([]K, len(kfs))
	for i := range kfs {
		ks[i] = kfs[i].k
	}
	it.keys = permute(ks, site)
	return it
}

func shallowPrint(v reflect.Value, depth int) string {
	if !v.IsValid() || depth > 3 {
		return "?"
	}
	switch v.Kind() {
	case reflect.Pointer, reflect.Interface:
		if v.IsNil() {
			return "nil"
		}
		return "&" + shallowPrint(v.Elem(), depth+1)
	case reflect.Struct:
		out := "{"
		for i := 0; i < v.NumField(); i++ {
			out += shallowPrint(v.Field(i), depth+1) + ","
		}
		return out + "}"
	case reflect.String:
		return strconv.Quote(v.String())
	case reflect.Bool:
		return strconv.FormatBool(v.Bool())
	case reflect.Int, reflect.Int8, reflect.Int16, reflect.Int32, reflect.Int64:
		return strconv.FormatInt(v.Int(), 10)
	case reflect.Uint, reflect.Uint8, reflect.Uint16, reflect.Uint32, reflect.Uint64, reflect.Uintptr:
		return strconv.FormatUint(v.Uint(), 10)
	case reflect.Float32, reflect.Float64:
		return strconv.FormatFloat(v.Float(), 'g', -1, 64)
	case reflect.Slice, reflect.Array:
		out := "["
		for i := 0; i < v.Len() && i < 8; i++ {
			out += shallowPrint(v.Index(i), depth+1) + ","
		}
		return out + "]"
	case reflect.Map:
		return "map" + strconv.Itoa(v.Len())
	}
	return v.Kind().String()
}

func permute[K any](ks []K, site int) []K {
	md := mode(site)
	count(site, len(ks), md)
	switch {
	case md == 0 || len(ks) < 2:
	case md == 1:
		for i, j := 0, len(ks)-1; i < j; i, j = i+1, j-1 {
			ks[i], ks[j] = ks[j], ks[i]
		}
	case md == 2:
		first := ks[0]
		copy(ks, ks[1:])
		ks[len(ks)-1] = first
	default:
		s := uint64(md)*0x9e3779b97f4a7c15 + uint64(len(ks))
		for i := len(ks) - 1; i > 0; i-- {
			s += 0x9e3779b97f4a7c15
			z := s
			z = (z ^ (z >> 30)) * 0xbf58476d1ce4e5b9
			z = (z ^ (z >> 27)) * 0x94d049bb133111eb
			z ^= z >> 31
			j := int(z % uint64(i+1))
			ks[i], ks[j] = ks[j], ks[i]
		}
	}
	return ks
}

// Next advances to the next entry that is still present.
func (it *It[K, V]) Next() bool {
	for it.i < len(it.keys) {
		k := it.keys[it.i]
		it.i++
		if v, ok := it.m[k]; ok {
			it.k, it.v = k, v
			return true
		}
	}
	return false
}

// K returns the current key.
func (it *It[K, V]) K() K { return it.k }

// V returns the current value.
func (it *It[K, V]) V() V { return it.v }

// Go runs f as a new simulated task (rewritten `go` statements, harness clients).
func Go(name string, f func()) { kern.Go(name, f) }

// Note appends an event to the run's history, stamped with the kernel's global
// event sequence number; it is also a scheduling point.
func Note(name, detail string) {
	if kern.Active() {
		kern.Call(kern.Req{Op: kern.OpNote, S: name, Data: []byte(detail)})
	}
}

// Yield is a bare scheduling point.
func Yield(what string) {
	if kern.Active() {
		kern.Call(kern.Req{Op: kern.OpYield, S: what})
	}
}

// ---- channels ---------------------------------------------------------------------------
//
// Channels are not modelled by the kernel. simgen rewrites the blocking channel operations of the
// code under test into these helpers, which keep the real channel and turn "block" into "park in
// the kernel until some other task has done something, then look again". A task that waits for a
// channel nobody will ever serve ends up in the kernel's ordinary deadlock report.
//
// An unbuffered channel needs a rendezvous, which two polling sides never reach on the real
// channel; a sender that finds nobody therefore leaves its value in a side table, where the next
// receiver of that channel takes it (FIFO). The table is guarded by a real mutex, which gives the
// race detector the same happens-before edge the real hand-off would.

type pendingSend struct {
	v    any
	done bool
}

var (
	chanMu      sync.Mutex
	chanPending = map[uintptr][]*pendingSend{}
)

func chanPark(site string) {
	kern.Call(kern.Req{Op: kern.OpPoll, S: site})
}

func chanDone(site string) {
	kern.Call(kern.Req{Op: kern.OpYield, S: site})
}

// ResetChannels forgets pending hand-offs (between runs).
func ResetChannels() {
	chanMu.Lock()
	chanPending = map[uintptr][]*pendingSend{}
	chanMu.Unlock()
}

// Recv is `<-ch`.
func Recv[T any](ch <-chan T, site string) T {
	v, _ := Recv2(ch, site)
	return v
}

// Recv2 is `v, ok := <-ch`.
func Recv2[T any](ch <-chan T, site string) (T, bool) {
	if !kern.Active() || kern.Aborting() {
		v, ok := <-ch
		return v, ok
	}
	id := reflect.ValueOf(ch).Pointer()
	for {
		select {
		case v, ok := <-ch:
			chanDone(site)
			return v, ok
		default:
		}
		if ch != nil && cap(ch) == 0 {
			chanMu.Lock()
			q := chanPending[id]
			var got *pendingSend
			if len(q) > 0 {
				got = q[0]
				chanPending[id] = q[1:]
				got.done = true
			}
			chanMu.Unlock()
			if got != nil {
				chanDone(site)
				return got.v.(T), true
			}
		}
		if kern.Aborting() {
			var zero T
			return zero, false
		}
		chanPark(site)
	}
}

// Send is `ch <- v`.
func Send[T any](ch chan<- T, v T, site string) {
	if !kern.Active() || kern.Aborting() {
		ch <- v
		return
	}
	id := reflect.ValueOf(ch).Pointer()
	var mine *pendingSend
	for {
		if mine == nil {
			select {
			case ch <- v:
				chanDone(site)
				return
			default:
			}
			if ch != nil && cap(ch) == 0 {
				// nobody is blocked in a receive on the real channel: offer the value
				mine = &pendingSend{v: v}
				chanMu.Lock()
				chanPending[id] = append(chanPending[id], mine)
				chanMu.Unlock()
				chanDone(site) // an offer is progress: parked receivers look again
				continue       // (one of them may have taken it meanwhile)
			}
		} else {
			chanMu.Lock()
			done := mine.done
			chanMu.Unlock()
			if done {
				chanDone(site)
				return
			}
		}
		if kern.Aborting() {
			return
		}
		chanPark(site)
	}
}

// Close is `close(ch)`: closing may make parked receivers ready, so it counts as progress.
func Close[T any](ch chan<- T, site string) {
	close(ch)
	if kern.Active() && !kern.Aborting() {
		chanDone(site)
	}
}

// SelectPark is the body of the default clause simgen adds to a select statement without one.
func SelectPark(site string) {
	if !kern.Active() || kern.Aborting() {
		runtime.Gosched()
		return
	}
	chanPark(site)
}
