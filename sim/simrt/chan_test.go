package simrt_test

import (
	"strings"
	"testing"

	"verifsim/sim/kern"
	"verifsim/sim/simrt"
	"verifsim/sim/simsync"
)

type lcg struct{ x uint64 }

func (l *lcg) Choose(label string, n int) int {
	l.x = l.x*6364136223846793005 + 1442695040888963407
	return int((l.x >> 33) % uint64(n))
}

// The channel helpers keep the real channel and park in the kernel instead of blocking.
func TestChannelHandOff(t *testing.T) {
	for seed := uint64(1); seed < 400; seed++ {
		ch := make(chan int) // unbuffered: every send needs its receiver
		done := make(chan struct{})
		sum := 0
		res := kern.Run(kern.Config{Src: &lcg{seed}}, func() {
			var wg simsync.WaitGroup
			for i := 1; i <= 3; i++ {
				i := i
				wg.Add(1)
				kern.Go("producer", func() {
					defer wg.Done()
					simrt.Send(ch, i, "send")
				})
			}
			kern.Go("consumer", func() {
				for k := 0; k < 3; k++ {
					sum += simrt.Recv(ch, "recv")
				}
				close(done)
			})
			wg.Wait()
			simrt.Recv(done, "done")
		})
		if res.Failed() || sum != 6 {
			t.Fatalf("seed %d: failed=%v deadlock=%q sum=%d", seed, res.Failed(), res.Deadlock, sum)
		}
	}
}

func TestChannelNobodySendsIsADeadlock(t *testing.T) {
	ch := make(chan int)
	res := kern.Run(kern.Config{}, func() {
		kern.Go("waiter", func() { simrt.Recv(ch, "x.go:1 channel receive") })
		var mu simsync.Mutex
		mu.Lock()
		mu.Unlock()
		simrt.Recv(ch, "x.go:2 channel receive")
	})
	if res.Deadlock == "" || !strings.Contains(res.Deadlock, "chanwait") || !strings.Contains(res.Deadlock, "x.go:2") {
		t.Fatalf("expected a deadlock naming the channel waits, got %+v", res.Deadlock)
	}
}
