// Package simsemaphore replaces golang.org/x/sync/semaphore: a FIFO weighted
// semaphore whose blocking is explicit in the kernel.
package simsemaphore

import (
	"context"

	real "golang.org/x/sync/semaphore"

	"verifsim/sim/kern"
)

// Weighted mirrors semaphore.Weighted.
type Weighted struct {
	size int64
	id   uint64
	real *real.Weighted
}

// NewWeighted creates a new weighted semaphore with the given maximum combined weight.
func NewWeighted(n int64) *Weighted { return &Weighted{size: n, real: real.NewWeighted(n)} }

// Acquire acquires the semaphore with a weight of n, blocking until resources are available.
func (s *Weighted) Acquire(ctx context.Context, n int64) error {
	if !kern.Active() {
		return s.real.Acquire(ctx, n)
	}
	if err := ctx.Err(); err != nil {
		return err
	}
	kern.Call(kern.Req{Op: kern.OpSemAcq, Obj: kern.ObjID(&s.id), A: n, B: s.size})
	if err := ctx.Err(); err != nil && !kern.Aborting() {
		// the context was cancelled while this task waited: like the real semaphore the call
		// fails without holding anything (the simulated waiter notices it when its turn comes)
		kern.Call(kern.Req{Op: kern.OpSemRel, Obj: kern.ObjID(&s.id), A: n, B: s.size})
		return err
	}
	if kern.RaceLane && !kern.Aborting() {
		return s.real.Acquire(ctx, n)
	}
	return nil
}

// TryAcquire acquires the semaphore with a weight of n without blocking.
func (s *Weighted) TryAcquire(n int64) bool {
	if !kern.Active() {
		return s.real.TryAcquire(n)
	}
	r := kern.Call(kern.Req{Op: kern.OpSemTry, Obj: kern.ObjID(&s.id), A: n, B: s.size})
	if r.A == 1 {
		if kern.RaceLane && !kern.Aborting() {
			s.real.TryAcquire(n)
		}
		return true
	}
	return false
}

// Release releases the semaphore with a weight of n.
func (s *Weighted) Release(n int64) {
	if !kern.Active() {
		s.real.Release(n)
		return
	}
	if kern.RaceLane && !kern.Aborting() {
		s.real.Release(n)
	}
	if r := kern.Call(kern.Req{Op: kern.OpSemRel, Obj: kern.ObjID(&s.id), A: n, B: s.size}); r.Status == kern.StPanicSemRelease {
		panic("semaphore: released more than held")
	}
}
