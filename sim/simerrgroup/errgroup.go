// Package simerrgroup replaces golang.org/x/sync/errgroup: goroutines become
// simulated tasks, Wait parks in the kernel.
package simerrgroup

import (
	"context"
	"sync"

	"verifsim/sim/kern"
	"verifsim/sim/simsemaphore"
	"verifsim/sim/simsync"
)

// Group mirrors errgroup.Group (the zero value is valid).
type Group struct {
	cancel func(error)
	wg     simsync.WaitGroup
	sem    *simsemaphore.Weighted
	// err is protected exactly as in the real implementation: written once
	// under errOnce, read after wg.Wait.
	errOnce sync.Once
	err     error
}

// WithContext mirrors errgroup.WithContext.
func WithContext(ctx context.Context) (*Group, context.Context) {
	ctx, cancel := context.WithCancelCause(ctx)
	return &Group{cancel: cancel}, ctx
}

func (g *Group) done() {
	if g.sem != nil {
		g.sem.Release(1)
	}
	g.wg.Done()
}

// Wait blocks until all function calls from the Go method have returned, then
// returns the first non-nil error (if any) from them.
func (g *Group) Wait() error {
	g.wg.Wait()
	if g.cancel != nil {
		g.cancel(g.err)
	}
	return g.err
}

func (g *Group) body(f func() error) func() {
	return func() {
		defer g.done()
		if err := f(); err != nil {
			g.errOnce.Do(func() {
				g.err = err
				if g.cancel != nil {
					g.cancel(g.err)
				}
			})
		}
	}
}

// Go calls the given function in a new task.
func (g *Group) Go(f func() error) {
	if g.sem != nil {
		g.sem.Acquire(context.Background(), 1)
	}
	g.wg.Add(1)
	if kern.Active() {
		kern.Go("errgroup", g.body(f))
	} else {
		go g.body(f)()
	}
}

// TryGo mirrors errgroup.Group.TryGo.
func (g *Group) TryGo(f func() error) bool {
	if g.sem != nil {
		if !g.sem.TryAcquire(1) {
			return false
		}
	}
	g.wg.Add(1)
	if kern.Active() {
		kern.Go("errgroup", g.body(f))
	} else {
		go g.body(f)()
	}
	return true
}

// SetLimit mirrors errgroup.Group.SetLimit.
func (g *Group) SetLimit(n int) {
	if n < 0 {
		g.sem = nil
		return
	}
	g.sem = simsemaphore.NewWeighted(int64(n))
}
