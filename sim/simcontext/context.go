// Package simcontext replaces package context: deadlines and timeouts run on the simulated
// clock (a task sleeps until the deadline and then cancels), everything else is the real package.
package simcontext

import (
	orig "context"
	"sync"
	"time"

	"verifsim/sim/kern"
	"verifsim/sim/simtime"
)

// deadlineCtx is a cancel context whose cancellation by the simulated deadline reports
// DeadlineExceeded.
type deadlineCtx struct {
	orig.Context
	deadline time.Time
	mu       sync.Mutex
	timedOut bool
}

func (c *deadlineCtx) Deadline() (time.Time, bool) { return c.deadline, true }

func (c *deadlineCtx) Err() error {
	err := c.Context.Err()
	if err == nil {
		return nil
	}
	c.mu.Lock()
	defer c.mu.Unlock()
	if c.timedOut {
		return orig.DeadlineExceeded
	}
	return err
}

// WithDeadline mirrors context.WithDeadline on the simulated clock.
func WithDeadline(parent orig.Context, d time.Time) (orig.Context, orig.CancelFunc) {
	if !kern.Active() {
		return orig.WithDeadline(parent, d)
	}
	inner, cancel := orig.WithCancel(parent)
	c := &deadlineCtx{Context: inner, deadline: d}
	t := simtime.AfterFunc(simtime.Until(d), func() {
		c.mu.Lock()
		if inner.Err() == nil {
			c.timedOut = true
		}
		c.mu.Unlock()
		cancel()
	})
	return c, func() { t.Stop(); cancel() }
}

// WithTimeout mirrors context.WithTimeout on the simulated clock.
func WithTimeout(parent orig.Context, d time.Duration) (orig.Context, orig.CancelFunc) {
	if !kern.Active() {
		return orig.WithTimeout(parent, d)
	}
	return WithDeadline(parent, simtime.Now().Add(d))
}
