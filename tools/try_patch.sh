#!/bin/bash
# usage: try_patch.sh <patch.diff> <property> [extra check args...]
# Runs the property's check against a scratch worktree of /repo's HEAD with the change applied
# (VERIF_REPO); /repo itself is never touched, so checks running against /repo are not disturbed.
P="$1"; ID="$2"; shift 2
WT=$(mktemp -d /tmp/trywt-XXXXXX); rmdir "$WT"
git -C /repo worktree add --detach "$WT" HEAD >/dev/null 2>&1 || { echo "worktree failed"; exit 2; }
trap 'git -C /repo worktree remove --force "$WT" >/dev/null 2>&1; rm -rf "$WT"' EXIT INT TERM PIPE HUP
git -C "$WT" apply "$P" || { echo "patch does not apply"; exit 2; }
# evidence and replays of this run go to a scratch directory: /verif/evidence only ever holds
# what a run against /repo itself wrote
OUT=/tmp/trypatch-out; mkdir -p "$OUT"
cd /verif && VERIF_REPO="$WT" VERIF_OUT="$OUT" ./bin/check "$ID" "$@"
echo "check exit=$?"
