#!/bin/sh
# usage: try_patch.sh <patch.diff> <property> [extra check args...]
# Applies a seeded change to /repo, runs the property's check, and always restores /repo.
P="$1"; ID="$2"; shift 2
cd /repo || exit 2
if ! git diff --quiet; then echo "/repo is dirty; refusing"; exit 2; fi
git apply "$P" || { echo "patch does not apply"; exit 2; }
trap 'git -C /repo checkout -- . ; git -C /repo clean -fdq' EXIT INT TERM PIPE HUP
cd /verif && ./bin/check "$ID" "$@"
echo "check exit=$?"
