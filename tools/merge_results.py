#!/usr/bin/env python3
"""Merges the RESULTS.json files of several tools/run_seeded.sh runs (each over a subset of
seeded/*) into seeded/RESULTS.json + RESULTS.md. A seed that appears in a later file replaces
its rows from earlier files. usage: merge_results.py <RESULTS.json> [<RESULTS.json> ...]"""
import json, os, sys

here = os.path.dirname(os.path.dirname(os.path.abspath(__file__)))
by = {}
for fn in sys.argv[1:]:
    rows = json.load(open(fn))
    seen = set()
    for r in rows:
        if r['seed'] not in seen:
            seen.add(r['seed'])
            by[r['seed']] = []
        by[r['seed']].append(r)


def key(s):
    p, k = s.split('-')
    return (p, int(k))


rows = [r for s in sorted(by, key=key) for r in by[s]]
json.dump(rows, open(os.path.join(here, 'seeded', 'RESULTS.json'), 'w'), indent=1)
with open(os.path.join(here, 'seeded', 'RESULTS.md'), 'w') as f:
    f.write('| seeded change | check | exit | first violation (oracle/class) |\n|---|---|---|---|\n')
    for s in sorted(by, key=key):
        for r in by[s]:
            f.write('| %s | %s | %s | %s |\n' % (s, r.get('check', ''), r.get('exit', ''), r.get('first_violation', r.get('error', ''))))
    caught = sum(1 for s in by if any(r.get('exit') == 1 for r in by[s]))
    f.write('\n%d of %d seeded changes are detected (exit 1 with a VIOLATION line) by at least one of their checks.\n' % (caught, len(by)))
print('%d seeds, %d detected' % (len(by), sum(1 for s in by if any(r.get('exit') == 1 for r in by[s]))))
