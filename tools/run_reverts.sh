#!/bin/bash
# For every "fixed" entry of known_findings.json: revert that fix: commit on a scratch worktree of
# /repo's HEAD and run the property's check - the violation must be reported again.
# usage: tools/run_reverts.sh [secs]   -> findings/REVERTS.md
cd "$(dirname "$0")/.."
V=$(pwd); SECS="${1:-40}"
R="$V/findings/REVERTS.md"
echo "| fix commit | property | check exit with the fix reverted | first violation |" > "$R.tmp"
echo "|---|---|---|---|" >> "$R.tmp"
python3 - <<'PY' > /tmp/reverts.list
import json
k=json.load(open('known_findings.json'))
items = k if isinstance(k,list) else k['findings']
seen=set()
for e in items:
    if e.get('status')=='fixed' and (e['commit'],e['property']) not in seen:
        seen.add((e['commit'],e['property'])); print(e['commit'], e['property'])
PY
while read c id; do
  d=$(mktemp /tmp/revert-XXXXXX.diff)
  git -C /repo diff "$c" "$c^" -- . ':!*_test.go' > "$d"
  log=$(mktemp /tmp/revert-XXXXXX.log)
  "$V/tools/try_patch.sh" "$d" "$id" --secs "$SECS" > "$log" 2>&1
  code=$(grep -o 'check exit=[0-9]*' "$log" | tail -1 | cut -d= -f2)
  viol=$(grep -m1 -A1 '^VIOLATION' "$log" | tail -1 | sed 's/^ *//' | cut -c1-140)
  echo "| $c | $id | $code | $viol |" >> "$R.tmp"
  echo "$c $id exit=$code $viol"
  rm -f "$d" "$log"
done < /tmp/reverts.list
mv "$R.tmp" "$R"
