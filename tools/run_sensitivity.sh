#!/bin/bash
# Runs the checks against the framework's own sensitivity mutants (sensitivity/*.diff; first line of
# the .txt names the property) on scratch worktrees of /repo's HEAD; writes sensitivity/RESULTS.md.
cd "$(dirname "$0")/.."
V=$(pwd); SECS="${1:-40}"
export GOFLAGS=-mod=mod GOPROXY=off GOSUMDB=off GOTOOLCHAIN=local
OUT=$(mktemp -d /tmp/sensout-XXXXXX)
R="$V/sensitivity/RESULTS.md"
echo "| mutant | property | what | existing suite with mutant | check exit | first violation |" > "$R.tmp"
echo "|---|---|---|---|---|---|" >> "$R.tmp"
for d in "$V"/sensitivity/*.diff; do
  n=$(basename "$d" .diff); id=$(sed -n 1p "$V/sensitivity/$n.txt"); why=$(sed -n 2p "$V/sensitivity/$n.txt")
  WT=$(mktemp -d /tmp/senswt-XXXXXX); rmdir "$WT"
  git -C /repo worktree add --detach "$WT" HEAD >/dev/null 2>&1 || continue
  if ! git -C "$WT" apply "$d"; then echo "| $n | $id | $why | patch does not apply | | |" >> "$R.tmp"; git -C /repo worktree remove --force "$WT"; continue; fi
  suite=$(cd "$WT" && timeout 600 go test -vet=off -count=1 . 2>&1 | tail -1 | awk '{print $1}')
  VERIF_REPO="$WT" VERIF_OUT="$OUT/$n" "$V/bin/check" "$id" --tier quick --secs "$SECS" > "$OUT/$n.log" 2>&1; code=$?
  viol=$(grep -m1 -A1 '^VIOLATION' "$OUT/$n.log" | tail -1 | sed 's/^ *//' | cut -c1-140)
  echo "| $n | $id | $why | $suite | $code | $viol |" >> "$R.tmp"
  echo "$n $id suite=$suite exit=$code $viol"
  git -C /repo worktree remove --force "$WT" >/dev/null 2>&1; rm -rf "$WT"
done
mv "$R.tmp" "$R"; rm -rf "$OUT"
