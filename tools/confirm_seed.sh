#!/bin/bash
# usage: confirm_seed.sh <seed dir with patch.diff + demo_test.go> <base: pinned|head>
# Confirms in a scratch worktree: the patch applies and compiles, the unedited root-package suite
# passes with it, the demonstration fails with it and passes without it. Prints one JSON line.
S="$1"; BASE="${2:-head}"
export GOFLAGS=-mod=mod GOPROXY=off GOSUMDB=off GOTOOLCHAIN=local
REV=HEAD; [ "$BASE" = pinned ] && REV=a9d77d2; case "$BASE" in rev:*) REV=${BASE#rev:};; esac
WT=$(mktemp -d /tmp/wt-XXXXXX); rmdir "$WT"
git -C /repo worktree add --detach "$WT" $REV >/dev/null 2>&1 || { echo "{\"seed\":\"$S\",\"error\":\"worktree\"}"; exit 1; }
cleanup() { git -C /repo worktree remove --force "$WT" >/dev/null 2>&1; rm -rf "$WT"; }
trap cleanup EXIT INT TERM PIPE HUP
cd "$WT"
applies=true; git apply "$S/patch.diff" 2>/dev/null || applies=false
if ! $applies; then echo "{\"seed\":\"$S\",\"base\":\"$BASE\",\"applies\":false}"; exit 0; fi
builds=true; go build ./... >/dev/null 2>&1 || builds=false
suite=$(timeout 600 go test -vet=off -count=1 . 2>&1 | tail -1 | cut -c1-60)
cp "$S/demo_test.go" ./zz_seed_demo_test.go
PAT=$(grep -oE '^func (Test[A-Za-z0-9_]+)' zz_seed_demo_test.go | awk '{print $2}' | paste -sd'|')
with=$(timeout 900 go test -vet=off -count=1 -run "^($PAT)\$" . 2>&1 | tail -1 | cut -c1-40)
git apply -R "$S/patch.diff"
without=$(timeout 900 go test -vet=off -count=1 -run "^($PAT)\$" . 2>&1 | tail -1 | cut -c1-40)
echo "{\"seed\":\"$S\",\"base\":\"$BASE\",\"applies\":true,\"builds\":$builds,\"suite_with_change\":\"$suite\",\"demo_with_change\":\"$with\",\"demo_without_change\":\"$without\"}"
