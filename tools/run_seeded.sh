#!/bin/bash
# Runs the registered checks against every seeded change in seeded/*/ on scratch worktrees of
# /repo's HEAD (never /repo itself) and writes seeded/RESULTS.json + RESULTS.md.
# usage: [WORKERS=n] tools/run_seeded.sh [secs per check] [name ...]
cd "$(dirname "$0")/.."
V=$(pwd)
SECS="${1:-60}"; shift
NAMES="$@"; [ -z "$NAMES" ] && NAMES=$(ls seeded | grep -E '^C[0-9]+-[0-9]+$')
export GOFLAGS=-mod=mod GOPROXY=off GOSUMDB=off GOTOOLCHAIN=local
OUT=$(mktemp -d /tmp/seedout-XXXXXX)
RES="$V/seeded/RESULTS.jsonl.tmp"; : > "$RES"
for n in $NAMES; do
  d="$V/seeded/$n"
  WT=$(mktemp -d /tmp/seedwt-XXXXXX); rmdir "$WT"
  git -C /repo worktree add --detach "$WT" HEAD >/dev/null 2>&1 || { echo "worktree failed for $n"; continue; }
  if ! git -C "$WT" apply "$d/patch.diff"; then echo "{\"seed\":\"$n\",\"error\":\"patch does not apply\"}" >> "$RES"; git -C /repo worktree remove --force "$WT"; continue; fi
  for id in $(python3 -c "import json;print(' '.join(json.load(open('$d/meta.json'))['checks_to_run']))"); do
    log="$OUT/$n-$id.log"
    VERIF_REPO="$WT" VERIF_OUT="$OUT/$n" "$V/bin/check" "$id" --tier quick --secs "$SECS" ${WORKERS:+--workers $WORKERS} > "$log" 2>&1
    code=$?
    viol=$(grep -m1 -A1 '^VIOLATION' "$log" | tail -1 | sed 's/^ *//' | cut -c1-160)
    python3 - "$n" "$id" "$code" "$viol" >> "$RES" <<'PY'
import sys, json
print(json.dumps({"seed": sys.argv[1], "check": sys.argv[2], "exit": int(sys.argv[3]), "first_violation": sys.argv[4]}))
PY
    echo "$n $id exit=$code $viol"
  done
  git -C /repo worktree remove --force "$WT" >/dev/null 2>&1; rm -rf "$WT"
done
python3 - "$RES" "$V/seeded" <<'PY'
import sys, json
rows=[json.loads(l) for l in open(sys.argv[1])]
json.dump(rows, open(sys.argv[2]+'/RESULTS.json','w'), indent=1)
by={}
for r in rows: by.setdefault(r['seed'],[]).append(r)
with open(sys.argv[2]+'/RESULTS.md','w') as f:
    f.write('| seeded change | check | exit | first violation (oracle/class) |\n|---|---|---|---|\n')
    for s in sorted(by):
        for r in by[s]:
            f.write('| %s | %s | %s | %s |\n' % (s, r.get('check',''), r.get('exit',''), r.get('first_violation', r.get('error',''))))
    caught=sum(1 for s in by if any(r.get('exit')==1 for r in by[s]))
    f.write('\n%d of %d seeded changes are detected (exit 1 with a VIOLATION line) by at least one of their checks.\n' % (caught, len(by)))
PY
rm -f "$RES"; rm -rf "$OUT"
