#!/usr/bin/env python3
"""Regenerates /verif/MANIFEST.json from the tables below (kept in one place so the
manifest stays valid and consistent with DESIGN.md)."""
import json, os

NA = {
 "C03": "pure function of one document (every scalar position is checked or not): no schedule, clock, fault, environment or history can change the verdict; needs position enumeration, not simulation (DESIGN.md section 5)",
 "C04": "language acceptance by a pure lexer/parser (no maps, no I/O, no concurrency): bounded-exhaustive token enumeration is model checking, not simulation (DESIGN.md section 5)",
 "C05": "pure function of workflow structure; the only nondeterminism it touches (job visiting order) is decided under C09/C02 (DESIGN.md section 5)",
 "C06": "a relation between two typing environments for the same expression: pure, nothing to schedule or fault (DESIGN.md section 5)",
 "C07": "column arithmetic of a pure function; shift invariance is a metamorphic relation on inputs (DESIGN.md section 5)",
 "C08": "metamorphic relation on input spelling; pure (DESIGN.md section 5)",
 "C11": "pure function of an expression tree; its single map range feeds a sorted list, and that order is explored under C02 anyway (DESIGN.md section 5)",
 "C12": "a finite (workflow key x context/function) table to enumerate completely; no schedule or fault (DESIGN.md section 5)",
 "C13": "the YAML-to-AST parser has no map iteration, concurrency or I/O: pure function of the input text (DESIGN.md section 5)",
 "C14": "pure function of (call site, callee interface); the multi-file / cached / AST-vs-file aspects are decided under C10 (DESIGN.md section 5)",
 "C16": "pure rendering of a diagnostic list; writer faults are not part of the statement (DESIGN.md section 5)",
 "C17": "pure scanner over a string (DESIGN.md section 5)",
 "C19": "'order-insensitive' refers to the order written in the file (an input permutation); Go's iteration order of the matrix maps cannot change a verdict, and C02 explores it regardless (DESIGN.md section 5)",
}

PENDING = {}

CHECKS = {
 "C01": dict(
   level=("fault_enumeration", "ONLY the fault-reachable slice of C01: well-formed projects whose input channels (workflow file, local action metadata, local reusable workflow, actionlint.yaml, stdin) and directory operations are hit by seeded disk faults (torn/zeroed/duplicated/swapped/bit-flipped/rewritten content, read errors, stat/getwd/listing errors, stdin errors and short reads), by failing or flooding external tools, and by an output writer and a log writer (stderr) that fail from some byte on, at chosen operations of a concurrent run; decided: no panic in any task, no deadlock, termination, exit status in {0,1,3}, status 3 for unreadable inputs. The 'all byte strings' quantifier of the property is input fuzzing and is not decided by this technique.", "DESIGN.md section 4 (C01)"),
   note="Trusts: virtual disk fault model (Linux errno values, fs.PathError), watchdog for hangs. Not covered: crafted-input crashes that no fault produces (e.g. `timeout-minutes: !!float nan`, CR-only line endings) - see DESIGN.md sections 4 and 9.",
   technique="deterministic simulation with disk/stdin fault injection over seeded worlds and schedules; invariants: no panic/deadlock/hang, exit status rule"),
 "C15": dict(
   level=("exploration", "Seeded sweep of the process environment the simulator owns - virtual working directory, path spelling, repository layout (nested, sibling, second repository in the same invocation), argument mode, failing getwd - x generated paths/ignore configurations and -ignore flags, deciding the output against a small reference model (unfiltered list minus applicable matches, order kept; exit status rule). The property has no schedule of its own; what tests pin to one point (one cwd, one spelling) is swept here, with a race lane for the filter code shared by file goroutines.", "DESIGN.md section 4 (C15)"),
   note="Trusts: virtual disk / virtual cwd facade (os, path/filepath), doublestar and Go regexp as used by the reference model, the unfiltered run as the source of U. Symbolic links (to files, to directories, loops) are modelled by the virtual disk; hard links and bind mounts are not.",
   technique="deterministic simulation of the process environment (virtual disk + cwd, getwd fault) with a reference filter model; seeded search with minimised replay; race-detector lane"),
 "C20": dict(
   level=("exploration", "The real process.go protocol (semaphore, WaitGroup, errgroup, callbacks, mutex) runs against simulated shellcheck/pyflakes whose latency, completion order and failures are seeded adversarial choices; decided: expected invocation multiset with sanitised stdin (reference model from the YAML via yaml.v3), one diagnostic per printed issue at the run: key with valid offsets, at every kernel step running processes <= NumCPU, at return nothing alive or uncollected (also on the error path), no deadlock, injected tool failure => fatal error. Interleavings and fault patterns are sampled: exploration.", "DESIGN.md section 4 (C20)"),
   note="Trusts: simulated os/exec contract (StdinPipe before Start, Output/CombinedOutput, ExitError), tool models (harness/tools.go), simulated clock; stdin and output pipes hold 64 KiB as on Linux; one script of the pool (80 KiB) is larger than that; the second call on a long-lived Linter, two lint calls in flight at once (two Linters) and a tool that does not read its input to the end are sampled as variants.",
   technique="deterministic simulation: simulated process table + discrete-event clock + seeded scheduler, tool-failure injection, step-wise invariants, reference model of shells/sanitising"),
 "C10": dict(
   level=("exploration", "Seeded search over multi-repository worlds x argument subsets/orders x goroutine schedules of LintFiles x NumCPU, deciding: per-file result == the file linted alone (executable reference), attribution == nearest containing repository (reference model) for every argument order, each callee defect exactly once per run, linearizability of the two caches' concurrent histories (porcupine) for defective callees, immutability of built-in tables and shared configs (reflection fingerprints), absence of data races (the same worlds on the -race build under an invisible baton), no deadlock. Schedules are sampled: exploration.", "DESIGN.md section 4 (C10)"),
   note="Trusts: simulated sync/x-sync/os models; reference models in harness/prop_c10*.go and gen_world.go; race lane can under-report (sync.Pool-mediated edges, TSan history window) but reports are only raised for stacks with actionlint frames on both sides and re-confirmed in fresh processes. Known finding: callee defect consumed by a paths-ignored file (known_findings.json).",
   technique="deterministic simulation: seeded scheduler over simulated sync primitives + virtual disk, solo-run reference, porcupine on recorded cache histories, race detector under TSan-invisible baton, fault injection (read errors)"),
 "C02": dict(
   level=("exploration", "Seeded search over generated multi-repository worlds x map-iteration orders at every instrumented range-over-map site x goroutine schedules of LintFiles x NumCPU x repeated execution in one process, with a purely differential oracle: stdout bytes, exit status and every field of every returned error must equal the canonical run's. Needs no model of actionlint, so it cannot false-alarm on a deterministic program; exploration is the level because schedules and orders are sampled.", "DESIGN.md section 4 (C02)"),
   note="Trusts: the simulated sync/x-sync/os models and map-order instrumentation (69 of 70 sites; the pointer-keyed one keeps native order); harness determinism is self-tested on every run (same seeds in separate processes under GOMAXPROCS 1/4/16). Known finding: which call site reports a local callee's own defect (known_findings.json).",
   technique="deterministic simulation: seeded scheduler + seeded map-iteration order + differential oracle against the canonical run, minimised replay"),
 "C09": dict(
   level=("exploration", "Seeded search over workflows composed from independently chosen job groups (mined from the repository's testdata and hand-written) x job visiting orders and all other map-iteration orders; per-job diagnostics are compared with the executable reference 'the group linted alone', plus step insertion/deletion checks inside a job. The history of rule-internal state before a job is what the simulator varies; it is sampled, hence exploration.", "DESIGN.md section 4 (C09)"),
   note="Trusts: map-order instrumentation, yaml.v3-based block extraction, the reference 'linted alone on the canonical run'. Job groups never reference defective callees (reported once per run is C10's business); cyclic-dependency diagnostics are excluded (exactly one per workflow is C18's).",
   technique="deterministic simulation: seeded map-iteration/job-visit order over composed workloads, executable reference model (solo lint), minimised replay"),
 "C18": dict(
   level=("exploration", "Seeded search over needs graphs x map-iteration orders of the rule's node map, resolve loop and job visiting order, executed by the real rule under the simulator's controlled map order; every run is compared with an independent graph reference model (dangling set, has-cycle, validity of the printed cycle) and must terminate. Exploration is the right level: the order dimension is what tests cannot reach, and it is sampled, not enumerated.", "DESIGN.md section 4 (C18)"),
   note="Trusts: the map-order instrumentation (simgen rewrite of map ranges into simrt.Iter), the reference graph model in harness/prop_c18.go, the workload generator's coverage of graph shapes. Not claimed: exhaustive enumeration up to 5 jobs (a quarter of the graphs are drawn uniformly from all labelled digraphs over 1-4 jobs; coverage.enumerated_inputs in the evidence says how many of them a run reached).",
   technique="deterministic simulation: seeded map-iteration-order control + reference graph model, seeded search with minimised replay"),
}

def check(pid, c):
    return {
        "property_id": pid,
        "quick_cmd": f"./bin/check {pid} --tier quick",
        "thorough_cmd": f"./bin/check {pid} --tier thorough",
        "evidence_file": f"/verif/evidence/{pid}.json",
        "replay_cmd_template": f"./bin/check {pid} --replay {{path}}",
        "engine": "dsim",
        "level_claimed": {"category": c["level"][0], "text": c["level"][1], "design_ref": c["level"][2]},
        "level_note": c["note"],
        "technique": c["technique"],
    }

m = {
 "version": 1,
 "setup_cmd": "./setup.sh",
 "hooks": {
   "guard": "verif",
   "enable": "no source change in /repo: bin/check runs bin/simgen on the current /repo working tree and builds the worker with `go build -overlay <generated overlay.json> -tags verif`; the overlay re-points imports of sync, x/sync, os, os/exec, execabs, path/filepath, runtime, time at the simulator's facade packages, rewrites map ranges and go statements, and adds one generated in-package file (//go:build verif) that lists every package-level variable",
   "baseline_off_cmd": "cd /repo && go test -json -vet=off -count=1 -timeout 25m ./...",
   "source_commits": [],
   "add_only": True,
 },
 "engines": [
   {"name": "dsim", "path": "/verif/sim + /verif/harness + /verif/cmd", "serves_properties": sorted(CHECKS), "kind_free_text": "deterministic simulation kernel (tasks, baton, simulated sync/errgroup/semaphore, virtual disk and cwd, simulated processes and clock, seeded labelled choices, ddmin minimiser) running the real actionlint sources through a generated go build -overlay"},
 ],
 "checks": [check(p, CHECKS[p]) for p in sorted(CHECKS)],
 "not_applicable": [{"property_id": p, "reason": r} for p, r in sorted({**NA, **PENDING}.items())],
 "notes": "Technique family: deterministic simulation with fault injection. Exit codes of every check: 0 held, 1 VIOLATION line printed, 2 harness/build/watchdog trouble (never a verdict). Known findings: /verif/known_findings.json. See DESIGN.md.",
}
open(os.path.join(os.path.dirname(__file__), "..", "MANIFEST.json"), "w").write(json.dumps(m, indent=1) + "\n")
