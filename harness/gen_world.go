package harness

import (
	"fmt"
	"path"
	"sort"
	"strings"

	"verifsim/sim/kern"
)

// Multi-repository world generator shared by C02, C10, C01 and C15.

// GenOpts selects the workload family.
type GenOpts struct {
	Defective   bool // allow defective / missing callees
	Ties        bool // bias towards tie-making fragments and headers
	Corpus      bool // allow whole corpus files
	Projects    bool // allow corpus projects (some have defective callees)
	Loose       bool // allow files outside any repository
	MaxRepos    int
	MaxFiles    int  // per repository
	SelfArg     bool // allow called reusable workflows to be arguments themselves
	PathConfigs bool // configs with `paths` ignore entries
	Anomalies   bool // odd but legal disk shapes: empty files, an empty config, a directory without .git next to the repositories
	Symlinks    bool // some workflow files are symbolic links to files outside their repository
	GenIface    bool // a reusable workflow with a generated interface (types, required, defaults in every combination) and callers of it
	Clone       bool // some worlds reuse one workflow text for several files (same code paths collide: shared tables, caches)
	DirLinks    bool // some worlds reach the first repository through a second path as well (a symbolic link to its root)
}

// RepoInfo describes one generated repository.
type RepoInfo struct {
	Root      string
	Config    string
	Workflows []string // absolute paths, sorted
}

// MultiWorld is a generated world plus what the harness knows about it.
type MultiWorld struct {
	*World
	Repos   []*RepoInfo
	AbsArgs []string          // the files to lint, absolute, in argument order
	RepoOf  map[string]string // absolute file -> containing repo root ("" = none), per the reference model
	Groups  map[string][]string
}

var repoRoots = []string{"/w/app", "/w/app-tools", "/w/app2", "/w/app/vendor/sub", "/x/y/z/r", "/w/APP", "/w/app/.github/actions/tool"}

var repoConfigs = []string{
	"",
	"self-hosted-runner:\n  labels:\n    - linux-*\n    - gpu\nconfig-variables:\n  - FOO\n  - BAR\n",
	"self-hosted-runner:\n  labels: [bogus-*]\nconfig-variables: []\n",
	"self-hosted-runner:\n  labels: [other-unknown]\nconfig-variables:\n  - ZED\n  - ALPHA\n  - NOPE\n",
	// a label pattern that is not a valid glob (reported by the runner-label rule wherever a custom label is checked)
	"self-hosted-runner:\n  labels: ['gpu-[', 'linux-*', 'x[']\n",
}

var pathConfigs = []string{
	"paths:\n  .github/workflows/**/*.yml:\n    ignore:\n      - 'is unknown'\n",
	"paths:\n  .github/workflows/a*.yml:\n    ignore:\n      - 'not defined'\n      - 'missing'\n  '**/b*.yml':\n    ignore:\n      - '.+'\n",
	"self-hosted-runner:\n  labels: [gpu]\npaths:\n  '**/*':\n    ignore:\n      - 'potentially untrusted'\n",
}

// containingRepo is the reference model of project attribution: the nearest
// ancestor directory d of the file such that d/.github/workflows is a directory
// and d/.git exists.
func containingRepo(d *kern.Disk, file string) string {
	dir := path.Dir(file)
	isDir := func(p string) bool {
		rp, st := d.Resolve(p, true)
		return st == 0 && d.Dirs[rp]
	}
	isFile := func(p string) bool {
		rp, st := d.Resolve(p, true)
		_, ok := d.Files[rp]
		return st == 0 && ok
	}
	for {
		if isDir(path.Join(dir, ".github/workflows")) {
			if isDir(path.Join(dir, ".git")) || isFile(path.Join(dir, ".git")) {
				return dir
			}
		}
		if dir == "/" {
			return ""
		}
		dir = path.Dir(dir)
	}
}

func composeWorkflow(c *Chooser, o GenOpts, wi int) (text string, assetNames []string, groups []string) {
	if o.Ties && c.Weighted("world.tiewf", 1, 12) {
		i := c.Int("world.tiewfsel", len(tieWorkflows))
		if len(tieWorkflows[i].Assets) == 0 || o.Defective {
			return tieWorkflows[i].Text, tieWorkflows[i].Assets, []string{fmt.Sprintf("tie-workflow-%d", i)}
		}
	}
	var hdr string
	if o.Ties && c.Weighted("world.tiehdr", 1, 4) {
		hdr = tieHeaders[c.Int("world.tiehdrsel", len(tieHeaders))]
	} else {
		hdr = headers[c.Int("world.hdr", len(headers))]
	}
	var b strings.Builder
	b.WriteString(hdr)
	b.WriteString("jobs:\n")
	n := 1 + c.Int("world.ngroups", 3)
	for gi := 0; gi < n; gi++ {
		var f *Frag
		switch {
		case o.Defective && c.Weighted("world.defective", 1, 3):
			f = defectiveFrags[c.Int("world.dfrag", len(defectiveFrags))]
		case o.Ties && c.Weighted("world.tie", 1, 2):
			var ties []*Frag
			for _, x := range frags {
				if x.Tie {
					ties = append(ties, x)
				}
			}
			f = ties[c.Int("world.tfrag", len(ties))]
		default:
			f = frags[c.Int("world.frag", len(frags))]
		}
		txt, _, _ := f.Render(fmt.Sprintf("w%dg%d", wi, gi))
		b.WriteString(txt)
		assetNames = append(assetNames, f.Assets...)
		groups = append(groups, f.Name)
	}
	return b.String(), assetNames, groups
}

// GenMulti draws a multi-repository world.
func GenMulti(c *Chooser, o GenOpts) *MultiWorld {
	if o.MaxRepos == 0 {
		o.MaxRepos = 3
	}
	if o.MaxFiles == 0 {
		o.MaxFiles = 4
	}
	cp := LoadCorpus()
	disk := kern.NewDisk()
	mw := &MultiWorld{World: &World{Disk: disk, API: APIFiles}, RepoOf: map[string]string{}, Groups: map[string][]string{}}
	clone := o.Clone && c.Weighted("world.clone", 1, 3)
	var cloneText string
	var cloneAssets, cloneGroups []string
	nrepos := 1 + c.Int("world.nrepos", o.MaxRepos)
	sameNames := c.Weighted("world.samenames", 1, 4)
	// choose distinct roots; a nested root is only meaningful with its parent present or absent - both are fine
	avail := append([]string(nil), repoRoots...)
	var all []string
	for ri := 0; ri < nrepos; ri++ {
		k := c.Int("world.root", len(avail))
		root := avail[k]
		avail = append(avail[:k:k], avail[k+1:]...)
		r := &RepoInfo{Root: root}
		if c.Weighted("world.gitfile", 1, 8) {
			disk.Put(root+"/.git", []byte("gitdir: /elsewhere\n"))
		} else {
			disk.MkdirAll(root + "/.git")
		}
		disk.MkdirAll(root + "/.github/workflows")
		// config
		if o.PathConfigs && c.Weighted("world.pathcfg", 1, 2) {
			r.Config = pathConfigs[c.Int("world.pathcfgsel", len(pathConfigs))]
		} else {
			r.Config = repoConfigs[c.Int("world.config", len(repoConfigs))]
		}
		if o.Defective && c.Weighted("world.brokencfg", 1, 12) {
			// a configuration that cannot be loaded: every run over this repository is fatal
			r.Config = []string{"self-hosted-runner: 1\n", "paths:\n  '[':\n    ignore: []\n", "paths:\n  '**':\n    ignore: ['(']\n", "config-variables: {a: b\n"}[c.Int("world.brokencfgsel", 4)]
		}
		if r.Config != "" {
			name := "actionlint.yaml"
			if c.Weighted("world.ymlcfg", 1, 4) {
				name = "actionlint.yml"
			}
			disk.Put(root+"/.github/"+name, []byte(r.Config))
		}
		if o.Projects && len(cp.Projects) > 0 && c.Weighted("world.project", 1, 4) {
			// a corpus project, laid out as a real repository: the tree as is, plus its
			// workflows mirrored under .github/workflows and its config under .github
			p := cp.Projects[c.Int("world.projsel", len(cp.Projects))]
			for _, rel := range sortedKeys(p.Files) {
				disk.Put(root+"/"+rel, []byte(p.Files[rel]))
			}
			for _, wf := range p.Workflows {
				dst := root + "/.github/workflows/" + strings.TrimPrefix(wf, "workflows/")
				disk.Put(dst, []byte(p.Files[wf]))
				r.Workflows = append(r.Workflows, dst)
			}
			mw.Groups[root] = []string{"project:" + p.Name}
		} else {
			nfiles := 1 + c.Int("world.nfiles", o.MaxFiles)
			for fi := 0; fi < nfiles; fi++ {
				name := fmt.Sprintf("%s/.github/workflows/%c%d.yml", root, 'a'+byte(fi), ri)
				if sameNames {
					// files of different repositories share their repository-relative names
					name = fmt.Sprintf("%s/.github/workflows/%c0.yml", root, 'a'+byte(fi))
				}
				if o.Corpus && len(cp.Files) > 0 && c.Weighted("world.corpusfile", 1, 3) {
					cf := cp.Files[c.Int("world.cfile", len(cp.Files))]
					if !strings.Contains(cf.Text, "uses: ./") || o.Defective {
						disk.Put(name, []byte(cf.Text))
						r.Workflows = append(r.Workflows, name)
						mw.Groups[name] = []string{"corpus:" + cf.Name}
						continue
					}
				}
				var text string
				var assetNames, groups []string
				if clone && cloneText != "" {
					text, assetNames, groups = cloneText, cloneAssets, cloneGroups
				} else {
					text, assetNames, groups = composeWorkflow(c, o, ri*10+fi)
					cloneText, cloneAssets, cloneGroups = text, assetNames, groups
				}
				if o.Symlinks && c.Weighted("world.symlink", 1, 6) {
					// the workflow is a symbolic link into a directory outside every repository
					// (or inside another repository): it still belongs to the repository of its path
					target := fmt.Sprintf("/shared/wf/r%df%d.yml", ri, fi)
					if len(mw.Repos) > 0 && c.Bool("world.symlinkintorepo") {
						target = fmt.Sprintf("%s/shared-r%df%d.yml", mw.Repos[0].Root, ri, fi)
					}
					disk.Put(target, []byte(text))
					disk.Symlink(name, target)
				} else {
					disk.Put(name, []byte(text))
				}
				InstallAssets(func(p, ct string) { disk.Put(p, []byte(ct)) }, root, assetNames)
				r.Workflows = append(r.Workflows, name)
				mw.Groups[name] = groups
			}
		}
		sort.Strings(r.Workflows)
		mw.Repos = append(mw.Repos, r)
		all = append(all, r.Workflows...)
		if o.SelfArg {
			// called reusable workflows that exist in this repository may be arguments themselves
			for _, p := range disk.SortedFiles() {
				if strings.HasPrefix(p, root+"/.github/workflows/reuse-") && c.Weighted("world.selfarg", 1, 3) {
					all = append(all, p)
				}
			}
		}
	}
	if o.GenIface && c.Weighted("world.geniface", 1, 3) {
		// a local reusable workflow whose interface is drawn per world, one or two callers of it in
		// separate files, and (often) the callee itself among the arguments: the callers' diagnostics
		// must not depend on whether the interface came from the in-memory AST or from the file
		root := mw.Repos[0].Root
		callee := root + "/.github/workflows/reuse-gen.yml"
		disk.Put(callee, []byte(genIfaceWorkflow(c)))
		ncallers := 1 + c.Int("world.ncallers", 2)
		badSpec := c.Weighted("world.badspec", 1, 3)
		for i := 0; i < ncallers; i++ {
			p := fmt.Sprintf("%s/.github/workflows/call-gen%d.yml", root, i)
			src := genIfaceCaller(c, i)
			if badSpec {
				// the same invalid local call (a local path with a ref) in every caller: the rule
				// remembers it in the project's cache of reusable workflows from each file's goroutine
				src += fmt.Sprintf("  pinned%d:\n    uses: ./.github/workflows/reuse-gen.yml@main\n", i)
			}
			disk.Put(p, []byte(src))
			all = append(all, p)
			mw.Groups[p] = []string{"generated-interface-caller"}
		}
		if c.Weighted("world.calleeisarg", 2, 3) {
			all = append(all, callee)
		}
	}
	if o.Anomalies && c.Weighted("world.anomaly", 1, 3) {
		switch c.Int("world.anomalykind", 5) {
		case 0: // an empty workflow file among the arguments
			p := mw.Repos[0].Root + "/.github/workflows/empty.yml"
			disk.Put(p, []byte(""))
			all = append(all, p)
		case 1: // a workflow made of a comment and blank lines only
			p := mw.Repos[0].Root + "/.github/workflows/blank.yml"
			disk.Put(p, []byte("# nothing here\n\n\n"))
			all = append(all, p)
		case 2: // an empty configuration file
			disk.Put(mw.Repos[0].Root+"/.github/actionlint.yaml", []byte(""))
		case 3: // a directory that looks like a repository but has no .git: not a project
			disk.MkdirAll("/w/nogit/.github/workflows")
			disk.Put("/w/nogit/.github/workflows/a.yml", []byte("on: push\njobs:\n  j:\n    runs-on: ubuntu-latest\n    steps:\n      - uses: ./act\n      - run: echo ${{ vars.X }}\n"))
			all = append(all, "/w/nogit/.github/workflows/a.yml")
		case 4: // a non-YAML file with a workflow extension (binary-looking content)
			p := mw.Repos[0].Root + "/.github/workflows/bin.yml"
			disk.Put(p, []byte("\x00\x01\xff\xfe{[:\n\t- ? !!binary |\n"))
			all = append(all, p)
		}
	}
	if c.Weighted("world.nestednogit", 1, 12) {
		// an example project inside the first repository: it has .github/workflows of its own but is no
		// repository (no .git), so its workflows belong to the enclosing repository
		root := mw.Repos[0].Root
		p := root + "/examples/demo/.github/workflows/n0.yml"
		disk.Put(p, []byte("on: push\njobs:\n  n:\n    runs-on: [self-hosted, gpu]\n    steps:\n      - run: echo ${{ vars.FOO }} ${{ vars.NOPE }}\n"))
		all = append(all, p)
		mw.Groups[p] = []string{"workflow-in-a-nested-directory-without-git"}
	}
	if o.Loose && c.Weighted("world.loosecalls", 1, 16) {
		// a file outside every repository that calls local workflows (which cannot be resolved there)
		lp := []string{"/tmp/loose-calls.yml", "/w/loose-calls.yml"}[c.Int("world.loosedir2", 2)]
		disk.Put(lp, []byte("on: push\njobs:\n  one:\n    uses: ./x.yml@ref\n  two:\n    uses: ./.github/workflows/y.yml\n  three:\n    uses: ./z.yml@main\n"))
		all = append(all, lp)
		mw.Groups[lp] = []string{"loose-file-with-local-calls"}
	}
	if o.Loose && c.Weighted("world.loose", 1, 4) {
		text, _, groups := composeWorkflow(c, GenOpts{Ties: o.Ties}, 99)
		if !strings.Contains(text, "uses: ./") {
			// outside every repository: in an unrelated directory, or in a directory that is an
			// ancestor of repositories (/w contains /w/app ...)
			lp := []string{"/tmp/loose.yml", "/w/loose.yml"}[c.Int("world.loosedir", 2)]
			disk.Put(lp, []byte(text))
			all = append(all, lp)
			mw.Groups[lp] = groups
		}
	}
	// argument subset and order
	var args []string
	for _, f := range all {
		if len(all) <= 2 || !c.Weighted("world.dropfile", 1, 5) {
			args = append(args, f)
		}
	}
	if len(args) == 0 {
		args = append(args, all[0])
	}
	for i := len(args) - 1; i > 0; i-- {
		j := i - c.Int("world.argorder", i+1)
		args[i], args[j] = args[j], args[i]
	}
	if len(args) > 12 {
		args = args[:12]
	}
	if o.DirLinks && c.Weighted("world.dirlink", 1, 8) {
		// the first repository is also reachable as /w/lnk (a symbolic link to its root, as left by a
		// checkout tool or a workspace layout); some of its files are named through the link
		root := mw.Repos[0].Root
		disk.Symlink("/w/lnk", root)
		for i, f := range args {
			if strings.HasPrefix(f, root+"/") && !strings.HasPrefix(f, root+"/vendor/") && c.Bool("world.vialink") {
				args[i] = "/w/lnk" + f[len(root):]
			}
		}
	}
	if c.Weighted("world.crlf", 1, 12) {
		// the workflow files were written by an editor that ends lines with CR LF
		for _, f := range all {
			if b, ok := disk.Files[f]; ok && !strings.Contains(string(b), "\r") {
				disk.Files[f] = []byte(strings.ReplaceAll(string(b), "\n", "\r\n"))
			}
		}
	}
	mw.AbsArgs = args
	for _, f := range args {
		mw.RepoOf[f] = containingRepo(disk, f)
	}
	// cwd and spelling
	cwds := []string{mw.Repos[0].Root, "/w", "/", mw.Repos[0].Root + "/.github/workflows"}
	mw.Cwd = cwds[c.Int("world.cwd", len(cwds))]
	disk.MkdirAll(mw.Cwd)
	rel := c.Weighted("world.relative", 1, 2)
	for _, f := range args {
		mw.Files = append(mw.Files, spell(f, mw.Cwd, rel))
	}
	mw.CPUs = []int{2, 1, 3, 4, 8, 16}[c.Int("world.cpus", 6)]
	return mw
}

// spell renders an absolute path the way a user would type it from cwd.
func spell(abs, cwd string, relative bool) string {
	if !relative {
		return abs
	}
	pre := cwd
	if pre != "/" {
		pre += "/"
	}
	if strings.HasPrefix(abs, pre) {
		return abs[len(pre):]
	}
	// climb
	up := ""
	d := cwd
	for d != "/" {
		d = path.Dir(d)
		up += "../"
		p := d
		if p != "/" {
			p += "/"
		}
		if strings.HasPrefix(abs, p) {
			return up + abs[len(p):]
		}
	}
	return abs
}

var ifaceNames = []string{"alpha", "Beta", "gamma_3", "delta-x", "Alpha"} // (the last one differs from the first in case only: the later definition counts)

// genIfaceWorkflow draws a reusable workflow interface.
func genIfaceWorkflow(c *Chooser) string {
	var b strings.Builder
	b.WriteString("on:\n  workflow_call:\n")
	if c.Weighted("world.hasinputs", 4, 5) {
		b.WriteString("    inputs:\n")
		for _, n := range ifaceNames {
			if c.Weighted("world.skipinput", 1, 4) {
				continue
			}
			fmt.Fprintf(&b, "      %s:\n", n)
			empty := true
			if t := []string{"", "string", "number", "boolean"}[c.Int("world.itype", 4)]; t != "" {
				fmt.Fprintf(&b, "        type: %s\n", t)
				empty = false
			}
			if r := []string{"", "true", "false", "True", "TRUE", "False", "${{ true }}"}[c.Int("world.irequired", 7)]; r != "" {
				fmt.Fprintf(&b, "        required: %s\n", r)
				empty = false
			}
			switch c.Int("world.idefault", 7) {
			case 1:
				b.WriteString("        default:\n")
				empty = false
			case 2:
				b.WriteString("        default: ''\n")
				empty = false
			case 3:
				b.WriteString("        default: x\n")
				empty = false
			case 4:
				b.WriteString("        default: 3\n")
				empty = false
			case 5:
				b.WriteString("        default: true\n")
				empty = false
			case 6:
				b.WriteString("        default: null\n")
				empty = false
			}
			if empty {
				b.WriteString("        description: d\n")
			}
		}
	}
	if c.Weighted("world.hassecrets", 2, 3) {
		b.WriteString("    secrets:\n")
		for _, n := range []string{"TOKEN", "key"} {
			fmt.Fprintf(&b, "      %s:\n", n)
			switch c.Int("world.srequired", 5) {
			case 0:
				b.WriteString("        description: s\n")
			case 1:
				b.WriteString("        required: true\n")
			case 2:
				b.WriteString("        required: false\n")
			case 3:
				b.WriteString("        required: True\n")
			case 4:
				b.WriteString("        required: TRUE\n")
			}
		}
	}
	if c.Bool("world.hasoutputs") {
		b.WriteString("    outputs:\n      Result:\n        description: r\n        value: ${{ jobs.j.outputs.v }}\n")
	}
	b.WriteString("jobs:\n  j:\n    runs-on: ubuntu-latest\n    outputs:\n      v: ${{ steps.s.outputs.v }}\n    steps:\n      - id: s\n        run: echo \"v=1\" >> \"$GITHUB_OUTPUT\"\n")
	return b.String()
}

// genIfaceCaller draws a workflow that calls the generated reusable workflow.
func genIfaceCaller(c *Chooser, i int) string {
	var b strings.Builder
	fmt.Fprintf(&b, "on: push\njobs:\n  call%d:\n    uses: ./.github/workflows/reuse-gen.yml\n", i)
	var with []string
	for _, n := range append(append([]string{}, ifaceNames...), "unknown") {
		if c.Weighted("world.passinput", 1, 2) {
			v := []string{"text", "3", "true", "${{ 'x' }}", "${{ 42 }}", "${{ github.ref }}"}[c.Int("world.inputvalue", 6)]
			name := n
			if c.Weighted("world.inputcase", 1, 4) {
				name = strings.ToUpper(n)
			}
			with = append(with, fmt.Sprintf("      %s: %s\n", name, v))
		}
	}
	if len(with) > 0 {
		b.WriteString("    with:\n" + strings.Join(with, ""))
	}
	switch c.Int("world.secretsmode", 4) {
	case 1:
		b.WriteString("    secrets: inherit\n")
	case 2:
		b.WriteString("    secrets:\n      token: ${{ secrets.T }}\n")
	case 3:
		b.WriteString("    secrets:\n      TOKEN: ${{ secrets.T }}\n      KEY: ${{ secrets.K }}\n      other: x\n")
	}
	fmt.Fprintf(&b, "  after%d:\n    needs: [call%d]\n    runs-on: ubuntu-latest\n    steps:\n      - run: echo ${{ needs.call%d.outputs.result }} ${{ needs.call%d.outputs.nope }}\n", i, i, i, i)
	return b.String()
}

// ApplyLogLevel draws how much the linter logs (nothing, -verbose, -debug): the log goes to the
// LogWriter / stderr, which no oracle compares, so results must not depend on it.
func ApplyLogLevel(c *Chooser, w *World) {
	switch c.Int("world.loglevel", 8) {
	case 1:
		w.Opts.Verbose = true
		if w.API == APIMain {
			w.Args = append([]string{"-verbose"}, w.Args...)
		}
	case 2:
		w.Opts.Debug = true
		if w.API == APIMain {
			w.Args = append([]string{"-debug"}, w.Args...)
		}
	}
}

// RelocateDir moves the directory old (with everything below it) to new and leaves a symbolic
// link at old pointing to it: the same tree, reached through a link.
func RelocateDir(d *kern.Disk, old, new string) {
	re := func(p string) (string, bool) {
		if p == old {
			return new, true
		}
		if strings.HasPrefix(p, old+"/") {
			return new + p[len(old):], true
		}
		return p, false
	}
	for p, c := range d.Files {
		if q, ok := re(p); ok {
			delete(d.Files, p)
			d.Files[q] = c
		}
	}
	for p, t := range d.Links {
		if q, ok := re(p); ok {
			delete(d.Links, p)
			d.Links[q] = t
		}
	}
	for p := range d.Dirs {
		if q, ok := re(p); ok {
			delete(d.Dirs, p)
			d.MkdirAll(q)
		}
	}
	d.MkdirAll(new)
	d.Symlink(old, new)
}
