package harness

import (
	"strings"
)

// Hand-written workload fragments. Every job group uses the prefix
// placeholder {P} in its job ids so that groups compose without id clashes.
// Text is block-style YAML with job keys at column 3.

// Asset is a set of files (relative to a repository root) a fragment needs.
type Asset struct {
	Name      string
	Files     map[string]string
	Defective bool // the callee itself has defects that are reported once per run
}

// FragJob is one job of a group.
type FragJob struct {
	ID   string // may contain {P}
	Body string // lines below the key, indented 4 spaces, newline-terminated
}

// Frag is a group of jobs closed under `needs`.
type Frag struct {
	Name    string
	Jobs    []FragJob
	Assets  []string
	Tie     bool // >= 2 diagnostics at one position, or >= 2 candidates for "the first"
	Clean   bool // no diagnostics expected
	Scripts bool // contains run: scripts for the shellcheck / pyflakes integrations
}

// Render returns the text of the group with the given prefix and the ids used.
func (f *Frag) Render(prefix string) (text string, ids []string, blocks []string) {
	var b strings.Builder
	for _, j := range f.Jobs {
		id := strings.ReplaceAll(j.ID, "{P}", prefix)
		blk := "  " + id + ":\n" + strings.ReplaceAll(j.Body, "{P}", prefix)
		b.WriteString(blk)
		ids = append(ids, id)
		blocks = append(blocks, blk)
	}
	return b.String(), ids, blocks
}

const stdSteps = "    runs-on: ubuntu-latest\n    steps:\n      - run: echo hello\n"

var assets = map[string]*Asset{
	"act-ok": {Name: "act-ok", Files: map[string]string{
		"act-ok/action.yml": "name: ok action\ndescription: a well-formed javascript action\ninputs:\n  token:\n    description: t\n    required: true\n  mode:\n    description: m\n    required: false\n    default: fast\noutputs:\n  result:\n    description: r\nruns:\n  using: node20\n  main: index.js\n",
		"act-ok/index.js":   "console.log('ok')\n",
	}},
	"act-req3": {Name: "act-req3", Files: map[string]string{
		"act-req3/action.yml": "name: three required inputs\ndescription: tie maker\ninputs:\n  alpha:\n    description: a\n    required: true\n  beta:\n    description: b\n    required: true\n  gamma:\n    description: c\n    required: true\n  delta:\n    description: d\n    required: true\n    default: x\nruns:\n  using: node20\n  main: main.js\n",
		"act-req3/main.js":    "\n",
	}},
	"act-comp": {Name: "act-comp", Files: map[string]string{
		"act-comp/action.yaml": "name: composite\ndescription: a well-formed composite action\ninputs:\n  who:\n    description: w\n    default: world\noutputs:\n  greeting:\n    description: g\n    value: ${{ steps.g.outputs.text }}\nruns:\n  using: composite\n  steps:\n    - id: g\n      run: echo \"text=hello\" >> \"$GITHUB_OUTPUT\"\n      shell: bash\n",
	}},
	"act-docker": {Name: "act-docker", Files: map[string]string{
		"act-docker/action.yml": "name: docker action\ndescription: a well-formed docker action\ninputs:\n  arg:\n    description: a\n    required: true\nruns:\n  using: docker\n  image: Dockerfile\n  args:\n    - ${{ inputs.arg }}\n",
		"act-docker/Dockerfile": "FROM alpine:3\n",
	}},
	"wf-typed": {Name: "wf-typed", Files: map[string]string{
		".github/workflows/reuse-typed.yml": "on:\n  workflow_call:\n    inputs:\n      name:\n        type: string\n        required: true\n      count:\n        type: number\n        required: true\n      flag:\n        type: boolean\n        required: false\n        default: false\n      level:\n        type: string\n        required: true\n    secrets:\n      token:\n        required: true\n      key:\n        required: true\n      extra:\n        required: false\n    outputs:\n      version:\n        description: v\n        value: ${{ jobs.build.outputs.v }}\njobs:\n  build:\n    runs-on: ubuntu-latest\n    outputs:\n      v: ${{ steps.s.outputs.v }}\n    steps:\n      - id: s\n        run: echo \"v=1\" >> \"$GITHUB_OUTPUT\"\n",
	}},
	"wf-opt": {Name: "wf-opt", Files: map[string]string{
		".github/workflows/reuse-opt.yml": "on:\n  workflow_call:\n    inputs:\n      note:\n        type: string\n    secrets:\n      maybe:\n        required: false\njobs:\n  j:\n    runs-on: ubuntu-latest\n    steps:\n      - run: echo ${{ inputs.note }}\n",
	}},
	"act-case": {Name: "act-case", Files: map[string]string{
		"acts/Deploy/action.yml": "name: Deploy\ndescription: needs a token\ninputs:\n  token:\n    description: t\n    required: true\nruns:\n  using: node20\n  main: index.js\n",
		"acts/Deploy/index.js":   "\n",
		"acts/deploy/action.yml": "name: deploy\ndescription: no inputs at all\nruns:\n  using: node20\n  main: index.js\n",
		"acts/deploy/index.js":   "\n",
	}},
	// two reusable workflows whose paths differ only in letter case, with different interfaces
	"wf-case": {Name: "wf-case", Files: map[string]string{
		".github/workflows/reuse-Case.yml": "on:\n  workflow_call:\n    inputs:\n      token:\n        type: string\n        required: true\njobs:\n  j:\n    runs-on: ubuntu-latest\n    steps:\n      - run: echo\n",
		".github/workflows/reuse-case.yml": "on:\n  workflow_call:\n    inputs:\n      level:\n        type: number\n    secrets:\n      key:\n        required: true\njobs:\n  j:\n    runs-on: ubuntu-latest\n    steps:\n      - run: echo\n",
	}},
	// Interface shapes where the in-memory AST and the re-parsed file could disagree.
	"wf-nulldefault": {Name: "wf-nulldefault", Files: map[string]string{
		".github/workflows/reuse-nulldefault.yml": "on:\n  workflow_call:\n    inputs:\n      x:\n        type: number\n        required: true\n        default:\n      y:\n        type: string\n        required: true\n      Upper:\n        type: boolean\n        required: true\n        default: ''\n    secrets:\n      S1:\n        required: true\njobs:\n  j:\n    runs-on: ubuntu-latest\n    steps:\n      - run: echo\n",
	}},
	// defective callees
	"act-bad-noname": {Name: "act-bad-noname", Defective: true, Files: map[string]string{
		"act-bad-noname/action.yml": "description: no name\nruns:\n  using: node20\n  main: index.js\n",
		"act-bad-noname/index.js":   "\n",
	}},
	"act-bad-yaml": {Name: "act-bad-yaml", Defective: true, Files: map[string]string{
		"act-bad-yaml/action.yml": "name: [unterminated\ndescription: x\n",
	}},
	"act-bad-using": {Name: "act-bad-using", Defective: true, Files: map[string]string{
		"act-bad-using/action.yml": "name: bad using\ndescription: unknown runner\nruns:\n  using: node8\n  main: index.js\n",
		"act-bad-using/index.js":   "\n",
	}},
	"act-bad-nomain": {Name: "act-bad-nomain", Defective: true, Files: map[string]string{
		"act-bad-nomain/action.yml": "name: no main file\ndescription: main does not exist\nruns:\n  using: node20\n  main: missing.js\n",
	}},
	"wf-bad-nocall": {Name: "wf-bad-nocall", Defective: true, Files: map[string]string{
		".github/workflows/reuse-nocall.yml": "on: push\njobs:\n  j:\n    runs-on: ubuntu-latest\n    steps:\n      - run: echo\n",
	}},
	"wf-bad-yaml": {Name: "wf-bad-yaml", Defective: true, Files: map[string]string{
		".github/workflows/reuse-badyaml.yml": "on:\n  workflow_call:\n    inputs: [\njobs:\n",
	}},
}

// Headers for generated workflows.
var headers = []string{
	"on:\n  workflow_dispatch:\n    inputs:\n      alpha:\n        type: string\n        default: ${{ inputs.beta }}\n      beta:\n        type: string\n        description: uses ${{ inputs.gamma }} and ${{ github.event.inputs.alpha }}\n      gamma:\n        type: choice\n        options: [x, y]\n        default: ${{ inputs.nope }}\n",
	"on:\n  schedule:\n    - cron: '36,38 * * * *'\n    - cron: '*/7 * * * *'\n    - cron: '0 0 * * *'\n  push:\n",
	"on: push\n",
	"on:\n  workflow_call:\n    outputs:\n      o1:\n        description: d\n        value: ${{ steps.s.outputs.v }}\n      o2:\n        description: d\n        value: ${{ matrix.os }}\n      o3:\n        description: d\n        value: ${{ needs.whoever.outputs.x }}\n",
	"name: CI\non: [push, pull_request]\n",
	"on:\n  push:\n    branches: [main]\n  workflow_dispatch:\n    inputs:\n      level:\n        type: choice\n        options: [a, b]\n      dry:\n        type: boolean\n",
	"on:\n  pull_request:\n    types: [opened, synchronize]\nenv:\n  TOP: level\ndefaults:\n  run:\n    shell: bash\n",
	"on: push\npermissions:\n  contents: read\nconcurrency:\n  group: ${{ github.ref }}\n",
	// dispatch inputs that happen to be called like the two special keys of a matrix
	"on:\n  workflow_dispatch:\n    inputs:\n      include:\n        type: string\n      exclude:\n        type: string\n      os:\n        type: string\n",
}

// Whole-workflow tie-makers (layouts the block-style fragments cannot express).
// TieWorkflow is a complete workflow text plus the assets it needs.
type TieWorkflow struct {
	Text   string
	Assets []string
}

var tieWorkflowTexts = []string{
	// flow-style jobs wrapped over several lines: job positions are anti-correlated in line and column
	"on: push\njobs: {zz-late-col: {needs: [b], runs-on: ubuntu-latest, steps: [{run: echo}]},\n  b: {needs: [c], runs-on: ubuntu-latest, steps: [{run: echo}]},\n c: {needs: [zz-late-col], runs-on: ubuntu-latest, steps: [{run: echo}]}}\n",
	"on: push\njobs: {first: {runs-on: ubuntu-latest, steps: [{run: echo}]},            p: {needs: [q], runs-on: ubuntu-latest, steps: [{run: echo}]},\n  q: {needs: [p], runs-on: ubuntu-latest, steps: [{run: echo}]},\n    r: {needs: [r, ghost1, ghost2], runs-on: ubuntu-latest, steps: [{run: echo}]}}\n",
	// two steps with duplicate ids and two jobs with case-insensitively equal ids in flow style
	"on: push\njobs:\n  j: {runs-on: ubuntu-latest, steps: [{id: a, run: echo}, {id: A, run: echo},\n    {id: a, run: echo}]}\n",
}

var tieWorkflows = func() []TieWorkflow {
	var out []TieWorkflow
	for _, t := range tieWorkflowTexts {
		out = append(out, TieWorkflow{Text: t})
	}
	// two jobs on ONE line of a flow-style mapping, both using the same defective local action: which of
	// them reports the action's defects is decided by the job visiting order
	out = append(out, TieWorkflow{Assets: []string{"act-bad-noname"},
		Text: "on: push\njobs: {zeta: {runs-on: ubuntu-latest, steps: [{uses: ./act-bad-noname}]}, alpha: {runs-on: ubuntu-latest, steps: [{uses: ./act-bad-noname}]}}\n"})
	// three jobs in block style that all use the same defective local action, the first needing the last:
	// the first job in the file reports the action's defects, whatever the jobs need
	out = append(out, TieWorkflow{Assets: []string{"act-bad-noname"},
		Text: "on: push\njobs:\n  first:\n    needs: [third]\n    runs-on: ubuntu-latest\n    steps:\n      - uses: ./act-bad-noname\n  second:\n    runs-on: ubuntu-latest\n    steps:\n      - uses: ./act-bad-noname\n  third:\n    runs-on: ubuntu-latest\n    steps:\n      - uses: ./act-bad-noname\n  fourth:\n    needs: [first, second]\n    runs-on: ubuntu-latest\n    steps:\n      - uses: ./act-bad-noname\n"})
	return out
}()

// Tie-making headers: >= 2 diagnostics at one position from the header itself.
var tieHeaders = []string{
	"on:\n  issues:\n    types: [bogus, nonsense]\n",
	"on: push\npermissions:\n  foo: read\n  bar: write\n",
	"on:\n  push:\n  workflow_dispatch:\n    inputs:\n      a:\n        type: choice\n        options: []\n",
}

var frags = []*Frag{
	{Name: "plain", Clean: true, Jobs: []FragJob{{ID: "{P}plain", Body: stdSteps}}},
	{Name: "needs-chain", Clean: true, Jobs: []FragJob{
		{ID: "{P}a", Body: "    runs-on: ubuntu-latest\n    outputs:\n      o: ${{ steps.s.outputs.v }}\n    steps:\n      - id: s\n        run: echo \"v=1\" >> \"$GITHUB_OUTPUT\"\n"},
		{ID: "{P}b", Body: "    needs: [{P}a]\n    runs-on: ubuntu-latest\n    steps:\n      - run: echo ${{ needs.{P}a.outputs.o }}\n"},
	}},
	{Name: "needs-undefined-output", Jobs: []FragJob{
		{ID: "{P}a", Body: "    runs-on: ubuntu-latest\n    outputs:\n      o: x\n    steps:\n      - run: echo\n"},
		{ID: "{P}b", Body: "    needs: {P}a\n    runs-on: ubuntu-latest\n    steps:\n      - run: echo ${{ needs.{P}a.outputs.nope }} ${{ needs.{P}zz.result }}\n"},
	}},
	{Name: "job-level-refs-to-other-jobs-steps", Jobs: []FragJob{
		{ID: "{P}m1", Body: "    runs-on: ubuntu-latest\n    steps:\n      - id: meta\n        run: echo \"v=1\" >> \"$GITHUB_OUTPUT\"\n"},
		{ID: "{P}m2", Body: "    runs-on: ubuntu-latest\n    env:\n      FROM_OTHER_JOB: ${{ steps.meta.outputs.v }}\n      FROM_NEEDS: ${{ needs.{P}m1.outputs.nope }}\n    steps:\n      - run: echo\n"},
	}},
	{Name: "matrix-ok", Clean: true, Jobs: []FragJob{{ID: "{P}mx", Body: "    strategy:\n      matrix:\n        os: [ubuntu-latest, macos-latest]\n        node: [18, 20]\n        include:\n          - os: ubuntu-latest\n            extra: yes\n    runs-on: ${{ matrix.os }}\n    steps:\n      - run: echo ${{ matrix.node }} ${{ matrix.extra }}\n"}}},
	{Name: "matrix-undefined", Jobs: []FragJob{{ID: "{P}mxu", Body: "    strategy:\n      matrix:\n        os: [ubuntu-latest]\n        targets:\n          - os: a\n            arch: b\n          - os: c\n            arch: d\n    runs-on: ${{ matrix.os }}\n    steps:\n      - run: echo ${{ matrix.nope }}\n      - run: echo ${{ join(matrix.targets.*.os, ',') }}\n      - run: echo ${{ join(matrix.targets.*.arch, ',') }}\n"}}},
	// three services with hard-coded credentials, an untrusted expression in env and an unknown context each: service map order
	{Name: "services-three", Tie: true, Jobs: []FragJob{{ID: "{P}sv3", Body: "    runs-on: ubuntu-latest\n    services: {db: {image: postgres, credentials: {username: u, password: p1}, env: {A: \"${{ nope.x }}\"}}, cache: {image: redis, credentials: {username: u, password: p2}, env: {B: \"${{ nope.y }}\"}}, mq: {image: rabbit, credentials: {username: u, password: p3}, env: {C: \"${{ nope.z }}\"}}}\n    steps:\n      - run: echo\n"}}},
	// a job with several outputs needed by a job that reads them (and one that does not exist)
	{Name: "needs-many-outputs", Jobs: []FragJob{
		{ID: "{P}mo1", Body: "    runs-on: ubuntu-latest\n    outputs:\n      alpha: a\n      beta: b\n      gamma: c\n      delta: d\n    steps:\n      - run: echo\n"},
		{ID: "{P}mo2", Body: "    needs: [{P}mo1]\n    runs-on: ubuntu-latest\n    steps:\n      - run: echo ${{ needs.{P}mo1.outputs.alpha }} ${{ needs.{P}mo1.outputs.delta }} ${{ needs.{P}mo1.outputs.epsilon }} ${{ toJSON(needs) }}\n"},
	}},
	// all outputs of a needed job used as the matrix (the checker drops include/exclude from ITS view of that object) while
	// another job reads outputs of the same job called include and exclude
	{Name: "needs-outputs-as-matrix", Jobs: []FragJob{
		{ID: "{P}nm1", Body: "    runs-on: ubuntu-latest\n    outputs:\n      include: i\n      exclude: e\n      os: o\n    steps:\n      - run: echo\n"},
		{ID: "{P}nm2", Body: "    needs: [{P}nm1]\n    strategy:\n      matrix: ${{ needs.{P}nm1.outputs }}\n    runs-on: ubuntu-latest\n    steps:\n      - run: echo ${{ matrix.os }} ${{ matrix.nope }}\n"},
		{ID: "{P}nm3", Body: "    needs: [{P}nm1]\n    runs-on: ubuntu-latest\n    steps:\n      - run: echo ${{ needs.{P}nm1.outputs.include }} ${{ needs.{P}nm1.outputs.exclude }} ${{ needs.{P}nm1.outputs.nope }}\n"},
	}},
	// matrix rows and include rows holding objects with several properties: object assignability and merging
	{Name: "matrix-object-rows", Jobs: []FragJob{{ID: "{P}mor", Body: "    strategy:\n      matrix:\n        cfg: [{a: 1, b: x, c: true}, {a: 2, b: y, c: false}]\n        include:\n          - cfg: {a: 3, b: z, c: true, d: extra}\n          - cfg: {a: s, b: 1}\n            other: {p: 1, q: 2}\n          - other: {p: x, q: y, r: z}\n    runs-on: ubuntu-latest\n    steps:\n      - run: echo ${{ matrix.cfg.a }} ${{ matrix.cfg.d }} ${{ matrix.cfg.nope }} ${{ matrix.other.p }} ${{ matrix.other.zzz }}\n"}}},
	// a runs-on expression that does not parse, and one that resolves through the matrix to an unknown label
	{Name: "runs-on-expr-syntax-error", Jobs: []FragJob{{ID: "{P}rse", Body: "    strategy:\n      matrix:\n        os: [ubuntu-latest]\n    runs-on: ${{ matrix. }}\n    steps:\n      - run: echo\n"}}},
	{Name: "runs-on-matrix-unknown-label", Jobs: []FragJob{{ID: "{P}rmu", Body: "    strategy:\n      matrix:\n        os: [ubuntu-latest, my-own-box, windows-latest]\n    runs-on: ${{ matrix.os }}\n    steps:\n      - run: echo\n"}}},
	{Name: "runs-on-matrix-conflict", Jobs: []FragJob{{ID: "{P}rmc", Body: "    strategy:\n      matrix:\n        os: [ubuntu-latest]\n    runs-on: [\"${{ matrix.os }}\", windows-latest, another-unknown]\n    steps:\n      - run: echo\n"}}},
	// the same untrusted expression text as an ordinary input and, in a later step, as the script of actions/github-script
	{Name: "untrusted-with-then-script", Jobs: []FragJob{{ID: "{P}uws", Body: "    runs-on: ubuntu-latest\n    steps:\n      - uses: actions/cache@v4\n        with:\n          path: x\n          key: ${{ github.event.issue.title }}\n      - run: echo unrelated\n      - uses: actions/github-script@v7\n        with:\n          script: ${{ github.event.issue.title }}\n      - uses: actions/github-script@v7\n        with:\n          github-token: ${{ github.event.issue.title }}\n          script: ${{ github.event.issue.title }}\n"}}},
	// a step whose run key is misspelt still has an id that later steps refer to or repeat
	{Name: "step-without-exec-has-id", Jobs: []FragJob{{ID: "{P}swe", Body: "    runs-on: ubuntu-latest\n    steps:\n      - id: first\n        Run: echo misspelt key\n      - run: echo ${{ steps.first.outputs.x }}\n      - id: first\n        run: echo same id again\n"}}},
	// a job that needs a job nobody defines; two such jobs name the same missing id
	{Name: "needs-undefined-shared", Jobs: []FragJob{{ID: "{P}nus", Body: "    needs: [ghost-job]\n    runs-on: ubuntu-latest\n    steps:\n      - run: echo\n"}}},
	// job and step ids that contain dashes: "deploy" + "prod-check" and "deploy-prod" + "check" (fixed ids: each fragment is used at most once per workflow)
	{Name: "dashed-ids-1", Jobs: []FragJob{{ID: "deploy", Body: "    runs-on: ubuntu-latest\n    steps:\n      - id: prod-check\n        run: echo one\n      - id: other\n        run: echo ${{ steps.prod-check.outputs.x }}\n"}}},
	{Name: "dashed-ids-2", Jobs: []FragJob{{ID: "deploy-prod", Body: "    runs-on: ubuntu-latest\n    steps:\n      - id: check\n        run: echo two\n      - id: other\n        run: echo ${{ steps.check.outputs.y }}\n"}}},
	// a matrix without rows whose include mixes an expression with literal combinations, and a job that reads github.event
	{Name: "matrix-include-expr-then-literal", Jobs: []FragJob{{ID: "{P}mie", Body: "    strategy:\n      matrix:\n        include:\n          - ${{ github.event }}\n          - release: x\n            action: y\n    runs-on: ubuntu-latest\n    steps:\n      - run: echo ${{ matrix.release }}\n"}}},
	// a matrix that is a whole context object, and other jobs reading the same object
	{Name: "matrix-from-inputs", Jobs: []FragJob{{ID: "{P}mfi", Body: "    strategy:\n      matrix: ${{ inputs }}\n    runs-on: ubuntu-latest\n    steps:\n      - run: echo ${{ matrix.os }}\n"}}},
	{Name: "matrix-from-event-inputs", Jobs: []FragJob{{ID: "{P}mfe", Body: "    strategy:\n      matrix: ${{ github.event.inputs }}\n    runs-on: ubuntu-latest\n    steps:\n      - run: echo ${{ matrix.os }}\n"}}},
	{Name: "inputs-named-like-matrix-keys", Jobs: []FragJob{{ID: "{P}inm", Body: "    runs-on: ubuntu-latest\n    steps:\n      - run: echo \"${{ inputs.include }} ${{ inputs.os }}\"\n      - run: echo \"${{ inputs.exclude }}\"\n      - run: echo \"${{ github.event.inputs.include }} ${{ github.event.inputs.exclude }}\"\n"}}},
	{Name: "matrix-from-inputs-and-reader", Jobs: []FragJob{
		{ID: "{P}mfr1", Body: "    strategy:\n      matrix: ${{ inputs }}\n    runs-on: ubuntu-latest\n    steps:\n      - run: echo ${{ matrix.os }}\n"},
		{ID: "{P}mfr2", Body: "    runs-on: ubuntu-latest\n    steps:\n      - run: echo \"${{ inputs.include }} ${{ inputs.exclude }}\"\n"},
	}},
	// a job that lost its runs-on (a syntax error of its own) with shells that only some platforms have,
	// and jobs that pin a platform by a literal label
	{Name: "no-runs-on-with-platform-shells", Jobs: []FragJob{{ID: "{P}nro", Body: "    steps:\n      - run: echo one\n        shell: cmd\n      - run: echo two\n        shell: sh\n      - run: echo three\n        shell: powershell\n      - run: echo four\n        shell: zsh\n"}}},
	{Name: "call-mixed-with-steps-and-shells", Assets: []string{"wf-opt"}, Jobs: []FragJob{{ID: "{P}cms", Body: "    uses: ./.github/workflows/reuse-opt.yml\n    steps:\n      - run: echo one\n        shell: cmd\n      - run: echo two\n        shell: sh\n"}}},
	{Name: "windows-literal-label", Clean: true, Jobs: []FragJob{{ID: "{P}win", Body: "    runs-on: windows-latest\n    steps:\n      - run: echo one\n        shell: cmd\n      - run: echo two\n        shell: pwsh\n"}}},
	{Name: "macos-literal-label", Clean: true, Jobs: []FragJob{{ID: "{P}mac", Body: "    runs-on: macos-latest\n    steps:\n      - run: echo one\n        shell: sh\n      - run: echo two\n        shell: bash\n"}}},
	// workflow commands spelled in ways a runner may or may not accept: whatever the rule makes of them, it reports or keeps quiet
	{Name: "workflow-commands-odd-spelling", Jobs: []FragJob{{ID: "{P}wco", Body: "    runs-on: ubuntu-latest\n    steps:\n      - run: echo '::SET-OUTPUT name=foo1::bar'\n      - run: |\n          echo \"::Save-State name=_x::1\"\n          echo \"::set-env name=A1::b\"\n          echo \"::ADD-PATH::/opt/x\"\n          echo \"::set-output name=9::v\"\n"}}},
	{Name: "github-event-release", Jobs: []FragJob{{ID: "{P}ger", Body: "    runs-on: ubuntu-latest\n    steps:\n      - run: echo \"${{ github.event.release.tag_name }} ${{ github.event.action }} ${{ github.event.release.nope.deeper }}\"\n"}}},
	// the arrays of an event payload, once with .* and once with a property taken from the array itself
	{Name: "github-event-arrays-star", Jobs: []FragJob{{ID: "{P}gas", Body: "    runs-on: ubuntu-latest\n    steps:\n      - run: echo \"${{ join(github.event.commits.*.id, ',') }} ${{ join(github.event.pages.*.action, ',') }}\"\n"}}},
	{Name: "github-event-arrays-prop", Jobs: []FragJob{{ID: "{P}gap", Body: "    runs-on: ubuntu-latest\n    steps:\n      - run: echo \"${{ github.event.commits.id }} ${{ github.event.pages.action }} ${{ github.event.commits[0].id }} ${{ github.event.pages[1].action }}\"\n"}}},
	{Name: "reusable-workflows-differing-in-case-1", Tie: true, Assets: []string{"wf-case"}, Jobs: []FragJob{{ID: "{P}wc1", Body: "    uses: ./.github/workflows/reuse-Case.yml\n    with:\n      level: 3\n"}}},
	{Name: "reusable-workflows-differing-in-case-2", Tie: true, Assets: []string{"wf-case"}, Jobs: []FragJob{{ID: "{P}wc2", Body: "    uses: ./.github/workflows/reuse-case.yml\n    with:\n      token: t\n"}}},
	// an object type printed in a message whose property names differ only in letter case
	{Name: "fromjson-case-keys", Tie: true, Jobs: []FragJob{{ID: "{P}fck", Body: "    runs-on: ubuntu-latest\n    steps:\n      - run: echo ${{ fromJSON('{\"Key\":1,\"key\":\"x\",\"KEY\":true,\"kEy\":null}').other }}\n"}}},
	// the same JSON literal used through .* in one job and directly in another
	{Name: "fromjson-literal-star", Jobs: []FragJob{{ID: "{P}fls", Body: "    runs-on: ubuntu-latest\n    steps:\n      - run: echo ${{ join(fromJSON('[{\"name\":\"a\"},{\"name\":\"b\"}]').*.name, ',') }}\n"}}},
	{Name: "fromjson-literal-direct", Jobs: []FragJob{{ID: "{P}fld", Body: "    runs-on: ubuntu-latest\n    steps:\n      - run: echo ${{ fromJSON('[{\"name\":\"a\"},{\"name\":\"b\"}]').name }}\n"}}},
	// a reference to a step id nobody defines, followed (later) by a step whose id is computed
	{Name: "undefined-step-then-dynamic-id", Jobs: []FragJob{{ID: "{P}usd", Body: "    strategy:\n      matrix:\n        name: [a, b]\n    runs-on: ubuntu-latest\n    steps:\n      - run: echo ${{ steps.nothere.outputs.x }}\n      - run: echo plain\n      - id: ${{ matrix.name }}\n        run: echo\n"}}},
	{Name: "matrix-objfilter", Jobs: []FragJob{{ID: "{P}mof", Body: "    strategy:\n      matrix:\n        include:\n          - name: first\n            targets: [{os: linux, arch: x64}, {os: darwin, arch: arm64}]\n            nums: [1, 2]\n    runs-on: ubuntu-latest\n    steps:\n      - run: echo \"${{ join(matrix.targets.*.os, ',') }}\"\n      - run: echo \"${{ join(matrix.targets.*.arch, ',') }}\"\n      - run: echo \"${{ matrix.targets.*.nope }} ${{ matrix.nums.*.x }}\"\n      - run: echo \"${{ matrix.targets[0].os }} ${{ toJSON(matrix.targets) }}\"\n"}}},
	{Name: "no-matrix-ref", Jobs: []FragJob{{ID: "{P}nomx", Body: "    runs-on: ubuntu-latest\n    steps:\n      - run: echo ${{ matrix.foo }}\n"}}},
	{Name: "uses-job-with-matrix", Assets: []string{"wf-opt"}, Clean: true, Jobs: []FragJob{{ID: "{P}call", Body: "    strategy:\n      matrix:\n        foo: [1, 2]\n    uses: ./.github/workflows/reuse-opt.yml\n    with:\n      note: n${{ matrix.foo }}\n"}}},
	{Name: "steps-ids", Jobs: []FragJob{{ID: "{P}st", Body: "    runs-on: ubuntu-latest\n    steps:\n      - run: echo ${{ steps.later.outputs.x }}\n      - id: later\n        run: echo\n      - id: cache\n        uses: actions/cache@v4\n        with:\n          path: p\n          key: k\n      - run: echo ${{ steps.cache.outputs.cache-hit }} ${{ steps.cache.outputs.nope }}\n"}}},
	{Name: "steps-dynamic-id", Jobs: []FragJob{{ID: "{P}dyn", Body: "    strategy:\n      matrix:\n        name: [a, b]\n    runs-on: ubuntu-latest\n    steps:\n      - id: ${{ matrix.name }}\n        run: echo\n      - run: echo ${{ steps.whatever.outputs.x }}\n"}}},
	{Name: "steps-undefined-ref", Jobs: []FragJob{{ID: "{P}und", Body: "    runs-on: ubuntu-latest\n    steps:\n      - id: real\n        run: echo\n      - run: echo ${{ steps.ghost.outputs.x }} ${{ steps.real.outputs.y }}\n"}}},
	{Name: "expr-type-errors", Jobs: []FragJob{{ID: "{P}ty", Body: "    runs-on: ubuntu-latest\n    env:\n      A: ${{ github.event.foo.bar }}\n    steps:\n      - run: echo ${{ github.nope }} ${{ startsWith('a') }}\n      - run: echo ${{ env.A == 1 && unknownfn() }}\n        if: ${{ github.event_name == 'push' }} && true\n"}}},
	{Name: "untrusted", Jobs: []FragJob{{ID: "{P}inj", Body: "    runs-on: ubuntu-latest\n    steps:\n      - run: echo \"${{ github.event.pull_request.title }}\" \"${{ github.event.issue.body }}\"\n      - uses: actions/github-script@v7\n        with:\n          script: console.log('${{ github.head_ref }}')\n"}}},
	{Name: "runner-labels", Jobs: []FragJob{
		{ID: "{P}rl1", Body: "    runs-on: [self-hosted, linux, bogus-label]\n    steps:\n      - run: echo\n"},
		{ID: "{P}rl2", Body: "    runs-on: bogus-label\n    steps:\n      - run: echo\n"},
		{ID: "{P}rl3", Body: "    runs-on: windows-latest\n    steps:\n      - run: echo\n        shell: pwsh\n"},
	}},
	{Name: "runner-labels-2", Jobs: []FragJob{
		{ID: "{P}rm1", Body: "    runs-on: bogus-label\n    steps:\n      - run: echo\n"},
	}},
	{Name: "runner-labels-3", Jobs: []FragJob{
		{ID: "{P}rn1", Body: "    runs-on: [self-hosted, gpu, other-unknown]\n    steps:\n      - run: echo\n"},
	}},
	{Name: "config-vars", Jobs: []FragJob{
		{ID: "{P}cv", Body: "    runs-on: ubuntu-latest\n    steps:\n      - run: echo ${{ vars.FOO }} ${{ vars.NOPE }} ${{ vars.nada }}\n"},
	}},
	{Name: "runner-conflict", Tie: true, Jobs: []FragJob{{ID: "{P}rc", Body: "    runs-on: [ubuntu-latest, macos-latest, windows-latest]\n    steps:\n      - run: echo\n"}}},
	{Name: "runner-conflict-two-candidates", Tie: true, Jobs: []FragJob{
		{ID: "{P}rc2", Body: "    runs-on: [self-hosted, linux, ubuntu-latest, windows-latest]\n    steps:\n      - run: echo\n"},
		{ID: "{P}rc3", Body: "    runs-on: [self-hosted, macos, macos-14, x64, ubuntu-22.04]\n    steps:\n      - run: echo\n"},
	}},
	{Name: "shell-names", Jobs: []FragJob{{ID: "{P}sh", Body: "    runs-on: ubuntu-latest\n    defaults:\n      run:\n        shell: zsh\n    steps:\n      - run: echo\n        shell: fish\n      - run: echo\n        shell: bash -e {0}\n"}}},
	{Name: "popular-action-inputs", Jobs: []FragJob{{ID: "{P}pa", Body: "    runs-on: ubuntu-latest\n    steps:\n      - uses: actions/checkout@v4\n        with:\n          fetch-depth: 0\n          bogus: 1\n      - uses: actions/setup-node@v4\n        with:\n          node-version: 20\n      - uses: actions/upload-artifact@v4\n"}}},
	{Name: "popular-missing-two", Tie: true, Jobs: []FragJob{{ID: "{P}pm", Body: "    runs-on: ubuntu-latest\n    steps:\n      - uses: actions/cache@v4\n      - uses: actions/cache@v4\n        with:\n          unknown1: a\n          unknown2: b\n"}}},
	{Name: "local-action-ok", Assets: []string{"act-ok", "act-comp", "act-docker"}, Clean: true, Jobs: []FragJob{{ID: "{P}la", Body: "    runs-on: ubuntu-latest\n    steps:\n      - id: a\n        uses: ./act-ok\n        with:\n          token: t\n      - uses: ./act-comp\n        id: c\n      - uses: ./act-docker\n        with:\n          arg: ${{ steps.a.outputs.result }} ${{ steps.c.outputs.greeting }}\n"}}},
	// owner/repository of a well-known action in another letter case (GitHub resolves it; the built-in table does not list it)
	{Name: "popular-action-other-case", Jobs: []FragJob{{ID: "{P}pc", Body: "    runs-on: ubuntu-latest\n    steps:\n      - uses: Actions/Checkout@v4\n        with:\n          fetch-depth: 0\n      - uses: actions/Setup-Node@v4\n      - uses: jamesives/github-pages-deploy-action@v4\n      - uses: actions/checkout@v4\n        with:\n          nope: 1\n"}}},
	{Name: "local-actions-differing-in-case-1", Tie: true, Assets: []string{"act-case"}, Jobs: []FragJob{{ID: "{P}cs1", Body: "    runs-on: ubuntu-latest\n    steps:\n      - uses: ./acts/Deploy\n"}}},
	{Name: "local-actions-differing-in-case-2", Tie: true, Assets: []string{"act-case"}, Jobs: []FragJob{{ID: "{P}cs2", Body: "    runs-on: ubuntu-latest\n    steps:\n      - uses: ./acts/deploy\n        with:\n          token: t\n"}}},
	{Name: "local-action-errors", Assets: []string{"act-ok", "act-comp"}, Jobs: []FragJob{{ID: "{P}le", Body: "    runs-on: ubuntu-latest\n    steps:\n      - id: a\n        uses: ./act-ok\n        with:\n          mode: slow\n          bogus: 1\n      - run: echo ${{ steps.a.outputs.nope }}\n      - uses: ./act-comp\n        with:\n          WHO: me\n"}}},
	{Name: "local-missing-three", Assets: []string{"act-req3"}, Tie: true, Jobs: []FragJob{{ID: "{P}lm", Body: "    runs-on: ubuntu-latest\n    steps:\n      - uses: ./act-req3\n      - uses: ./act-req3\n        with:\n          beta: b\n          zeta: z\n          eta: e\n"}}},
	{Name: "reuse-typed-ok", Assets: []string{"wf-typed"}, Clean: true, Jobs: []FragJob{
		{ID: "{P}rt", Body: "    uses: ./.github/workflows/reuse-typed.yml\n    with:\n      name: n\n      count: 3\n      level: high\n    secrets:\n      token: ${{ secrets.T }}\n      key: ${{ secrets.K }}\n"},
		{ID: "{P}after", Body: "    needs: [{P}rt]\n    runs-on: ubuntu-latest\n    steps:\n      - run: echo ${{ needs.{P}rt.outputs.version }}\n"},
	}},
	{Name: "reuse-typed-errors", Assets: []string{"wf-typed"}, Tie: true, Jobs: []FragJob{
		{ID: "{P}re", Body: "    uses: ./.github/workflows/reuse-typed.yml\n    with:\n      count: ${{ 'abc' }}\n      flag: 42\n      unknown: 1\n    secrets:\n      other: x\n"},
		{ID: "{P}re2", Body: "    needs: {P}re\n    runs-on: ubuntu-latest\n    steps:\n      - run: echo ${{ needs.{P}re.outputs.nope }}\n"},
	}},
	{Name: "reuse-inherit", Assets: []string{"wf-typed", "wf-opt"}, Jobs: []FragJob{
		{ID: "{P}ri", Body: "    uses: ./.github/workflows/reuse-typed.yml\n    with:\n      name: a\n      count: 1\n      level: l\n    secrets: inherit\n"},
		{ID: "{P}ro", Body: "    uses: ./.github/workflows/reuse-opt.yml\n"},
	}},
	{Name: "reuse-nulldefault", Assets: []string{"wf-nulldefault"}, Jobs: []FragJob{
		{ID: "{P}nd", Body: "    uses: ./.github/workflows/reuse-nulldefault.yml\n    with:\n      y: s\n    secrets:\n      s1: x\n"},
	}},
	{Name: "format-surplus", Tie: true, Jobs: []FragJob{{ID: "{P}fmt", Body: "    runs-on: ubuntu-latest\n    steps:\n      - run: echo ${{ format('{1} {2} {3}', 'x') }}\n      - run: echo ${{ format('{0}', 'a', 'b', 'c') }}\n"}}},
	{Name: "needs-two-undefined", Tie: true, Jobs: []FragJob{{ID: "{P}nu", Body: "    needs: [{P}ghost1, {P}ghost2, {P}ghost3]\n    runs-on: ubuntu-latest\n    steps:\n      - run: echo\n"}}},
	{Name: "two-cycles", Tie: true, Jobs: []FragJob{
		{ID: "{P}c1", Body: "    needs: [{P}c2]\n" + stdSteps},
		{ID: "{P}c2", Body: "    needs: [{P}c1]\n" + stdSteps},
		{ID: "{P}c3", Body: "    needs: [{P}c4]\n" + stdSteps},
		{ID: "{P}c4", Body: "    needs: [{P}c3]\n" + stdSteps},
	}},
	{Name: "cycle-with-tail", Tie: true, Jobs: []FragJob{
		{ID: "{P}t0", Body: "    needs: [{P}t1]\n" + stdSteps},
		{ID: "{P}t1", Body: "    needs: [{P}t2, {P}t3]\n" + stdSteps},
		{ID: "{P}t2", Body: "    needs: [{P}t1]\n" + stdSteps},
		{ID: "{P}t3", Body: "    needs: [{P}t2]\n" + stdSteps},
	}},
	{Name: "matrix-dups", Tie: true, Jobs: []FragJob{{ID: "{P}md", Body: "    strategy:\n      matrix:\n        v: [1, 2, 1, 2]\n        w: [{a: 1, b: 2}, {b: 2, a: 1}]\n        exclude:\n          - v: 3\n            w: 9\n          - nope: 1\n            nada: 2\n    runs-on: ubuntu-latest\n    steps:\n      - run: echo ${{ matrix.v }}\n"}}},
	{Name: "permissions-unknown", Tie: true, Jobs: []FragJob{{ID: "{P}perm", Body: "    permissions:\n      foo: read\n      bar: write\n      contents: bogus\n    runs-on: ubuntu-latest\n    steps:\n      - run: echo\n"}}},
	{Name: "env-vars", Jobs: []FragJob{{ID: "{P}env", Body: "    runs-on: ubuntu-latest\n    env:\n      A&B: 1\n      OK_NAME: 2\n      with space: 3\n    steps:\n      - run: echo\n        env:\n          X=Y: 1\n"}}},
	{Name: "credentials", Jobs: []FragJob{{ID: "{P}cred", Body: "    runs-on: ubuntu-latest\n    container:\n      image: img\n      credentials:\n        username: u\n        password: hardcoded\n    services:\n      redis:\n        image: redis\n        credentials:\n          username: u\n          password: ${{ secrets.P }}\n    steps:\n      - run: echo\n"}}},
	{Name: "deprecated-commands", Jobs: []FragJob{{ID: "{P}dep", Body: "    runs-on: ubuntu-latest\n    steps:\n      - run: echo '::set-output name=foo::bar'\n      - run: |\n          echo '::save-state name=foo::bar'\n          echo '::set-env name=FOO::bar'\n"}}},
	{Name: "if-cond", Jobs: []FragJob{{ID: "{P}if", Body: "    runs-on: ubuntu-latest\n    if: ${{ github.event_name == 'push' }} || true\n    steps:\n      - run: echo\n        if: true && ${{ false }}\n      - run: echo\n        if: always()\n"}}},
	{Name: "glob-and-ids", Jobs: []FragJob{{ID: "{P}-bad id!", Body: "    runs-on: ubuntu-latest\n    steps:\n      - id: 1bad\n        run: echo\n      - id: dup\n        run: echo\n      - id: DUP\n        run: echo\n"}}},
	{Name: "syntax-keys", Jobs: []FragJob{{ID: "{P}syn", Body: "    runs-on: ubuntu-latest\n    unknown-key: 1\n    timeout-minutes: abc\n    steps:\n      - run: echo\n        uses: actions/checkout@v4\n      - name: nothing\n      - run: echo\n        unknown: 2\n"}}},
	{Name: "services-container", Clean: true, Jobs: []FragJob{{ID: "{P}svc", Body: "    runs-on: ubuntu-latest\n    container:\n      image: node:20\n      ports: [80]\n      volumes: ['/a:/b']\n    services:\n      db:\n        image: postgres\n        ports: ['5432:5432']\n    steps:\n      - run: echo ${{ job.services.db.ports['5432'] }}\n"}}},
	{Name: "scripts-bash", Scripts: true, Clean: true, Jobs: []FragJob{{ID: "{P}sb", Body: "    runs-on: ubuntu-latest\n    steps:\n      - run: echo $FOO ${{ github.sha }} SC2086\n      - run: |\n          for f in *; do\n            echo $f ${{ matrix.x }} ${{ github.ref }} SC2231\n          done\n      - run: echo ok\n        shell: sh\n"}}},
	// an issue the tool reports as a sparse JSON object (no column, no level), after steps with ordinary issues
	{Name: "scripts-sparse-report", Scripts: true, Clean: true, Jobs: []FragJob{{ID: "{P}ssr", Body: "    runs-on: ubuntu-latest\n    steps:\n      - run: echo $A SC2086 and SC2154\n      - run: echo sparse SC2998\n      - run: echo $B SC2086 then SC2998\n"}}},
	{Name: "scripts-python", Scripts: true, Clean: true, Jobs: []FragJob{{ID: "{P}sp", Body: "    runs-on: ubuntu-latest\n    defaults:\n      run:\n        shell: python\n    steps:\n      - run: |\n          import os\n          print(${{ github.run_id }}) PF01\n      - run: print('x') PF03\n      - run: echo not python\n        shell: bash\n"}}},
	{Name: "scripts-windows", Scripts: true, Clean: true, Jobs: []FragJob{{ID: "{P}sw", Body: "    runs-on: windows-latest\n    steps:\n      - run: Write-Host hi SC2154\n      - run: echo $X SC2086\n        shell: bash\n"}}},
	{Name: "scripts-exprlabel", Scripts: true, Clean: true, Jobs: []FragJob{{ID: "{P}sx", Body: "    strategy:\n      matrix:\n        os: [ubuntu-latest, windows-latest]\n    runs-on: ${{ matrix.os }}\n    steps:\n      - run: echo $Y SC2086\n"}}},
	{Name: "scripts-group-runner", Scripts: true, Clean: true, Jobs: []FragJob{{ID: "{P}sg", Body: "    runs-on:\n      group: big\n    steps:\n      - run: echo $Z SC2086 SC2016\n      - run: print(1) PF02\n        shell: python\n"}}},
	{Name: "scripts-jobdefault-sh", Scripts: true, Clean: true, Jobs: []FragJob{{ID: "{P}sj", Body: "    runs-on: ubuntu-latest\n    defaults:\n      run:\n        shell: sh\n    steps:\n      - run: echo $W SC2039\n      - run: echo pwsh SC2001\n        shell: pwsh\n"}}},
}

// defective-callee groups (C10 second configuration, C02)
var defectiveFrags = []*Frag{
	{Name: "bad-noname", Assets: []string{"act-bad-noname"}, Jobs: []FragJob{{ID: "{P}bn", Body: "    runs-on: ubuntu-latest\n    steps:\n      - uses: ./act-bad-noname\n"}}},
	{Name: "bad-yaml", Assets: []string{"act-bad-yaml"}, Jobs: []FragJob{{ID: "{P}by", Body: "    runs-on: ubuntu-latest\n    steps:\n      - uses: ./act-bad-yaml\n"}}},
	{Name: "bad-using", Assets: []string{"act-bad-using"}, Jobs: []FragJob{{ID: "{P}bu", Body: "    runs-on: ubuntu-latest\n    steps:\n      - uses: ./act-bad-using\n"}}},
	{Name: "bad-nomain", Assets: []string{"act-bad-nomain"}, Jobs: []FragJob{{ID: "{P}bm", Body: "    runs-on: ubuntu-latest\n    steps:\n      - uses: ./act-bad-nomain\n"}}},
	{Name: "bad-missing-action", Jobs: []FragJob{{ID: "{P}ma", Body: "    runs-on: ubuntu-latest\n    steps:\n      - uses: ./act-does-not-exist\n"}}},
	{Name: "bad-nocall", Assets: []string{"wf-bad-nocall"}, Jobs: []FragJob{{ID: "{P}nc", Body: "    uses: ./.github/workflows/reuse-nocall.yml\n"}}},
	{Name: "bad-wfyaml", Assets: []string{"wf-bad-yaml"}, Jobs: []FragJob{{ID: "{P}wy", Body: "    uses: ./.github/workflows/reuse-badyaml.yml\n"}}},
	{Name: "bad-missing-wf", Jobs: []FragJob{{ID: "{P}mw", Body: "    uses: ./.github/workflows/reuse-does-not-exist.yml\n"}}},
}

// InstallAssets writes the assets a fragment needs under root.
func InstallAssets(put func(path string, content string), root string, names []string) {
	for _, n := range names {
		a := assets[n]
		if a == nil {
			panic("harness: unknown asset " + n)
		}
		for _, p := range sortedKeys(a.Files) {
			put(root+"/"+p, a.Files[p])
		}
	}
}
