package harness

import (
	"encoding/json"
	"fmt"
	"path"
	"regexp"
	"strconv"
	"strings"

	"verifsim/sim/kern"
)

// C02 - output is a deterministic function of the inputs.
//
// Pure differential oracle: for a world W the canonical run R0 (identity map
// order at every site, non-preemptive schedule, zero tool latency) and a run
// that differs only in simulator choices (map-order modes, goroutine schedule,
// tool latencies / completion order, NumCPU, a second execution in the same
// process) must produce identical stdout bytes, exit status and []*Error.

type c02 struct{}

func init() { Register(c02{}) }

func (c02) ID() string { return "C02" }

type lintCmp struct {
	Stdout string
	Exit   int
	Errs   []ErrRec
	Fatal  bool
}

func cmpOf(r *LintResult) lintCmp {
	errs := r.Errs
	if errs == nil && r.Stdout != "" {
		// a run through Command.Main: the diagnostics are read back from what it printed, so that a
		// difference is classified like one between two library calls
		errs = parsePrinted(r.Stdout)
	}
	return lintCmp{Stdout: r.Stdout, Exit: r.Exit, Errs: errs, Fatal: r.Fatal != "" || r.Exit == 3}
}

var rePrinted = regexp.MustCompile(`^([^ \t|][^:]*):([0-9]+):([0-9]+): (.*) \[([a-z-]+)\]$`)

// parsePrinted reads the diagnostics back from the output of the command (default, -oneline,
// the line template and the JSON template used by the generator).
func parsePrinted(out string) []ErrRec {
	if strings.HasPrefix(out, "[") {
		var js []struct {
			Message  string `json:"message"`
			Filepath string `json:"filepath"`
			Line     int    `json:"line"`
			Column   int    `json:"column"`
			Kind     string `json:"kind"`
		}
		if json.Unmarshal([]byte(out), &js) == nil {
			var es []ErrRec
			for _, j := range js {
				es = append(es, ErrRec{File: j.Filepath, Line: j.Line, Col: j.Column, Kind: j.Kind, Msg: j.Message})
			}
			return es
		}
	}
	var es []ErrRec
	for _, ln := range strings.Split(out, "\n") {
		if m := rePrinted.FindStringSubmatch(ln); m != nil {
			l, _ := strconv.Atoi(m[2])
			c, _ := strconv.Atoi(m[3])
			es = append(es, ErrRec{File: m[1], Line: l, Col: c, Kind: m[5], Msg: m[4]})
		}
	}
	return es
}

// reCalleeDefect recognises the diagnostics about a local callee's OWN defects
// (reported while its metadata is loaded and checked, once per run), as opposed
// to diagnostics about a call site.
var reCalleeDefect = regexp.MustCompile(`^could not read reusable workflow file for |^error while parsing reusable workflow |^could not parse action metadata in |^name is required in action metadata |in metadata of "[^"]*" action at |in "runs" section because "[^"]*" is a |^file "[^"]*" does not exist in "[^"]*"\. it is specified at |referenced from "image" key must be named |is required when "(pre|post)-if" is specified in "runs" section|^"runs\.using" is missing in local action |at runs\.using in "[^"]*" action defined at `)

var reQuoted = regexp.MustCompile(`"[^"]*"`)
var reDigits = regexp.MustCompile(`[0-9]+`)

// msgClass abstracts a message into a stable class key.
func msgClass(m string) string {
	m = reQuoted.ReplaceAllString(m, `""`)
	m = reDigits.ReplaceAllString(m, "N")
	if len(m) > 48 {
		m = m[:48]
	}
	return m
}

// firstDiff classifies the difference between two results ("" when equal).
//
//	exit                        exit status / fatal differs
//	order:<kind>:<msg class>    same multiset of diagnostics in a different order
//	callee-defect-attribution   the runs report the same messages about a local callee's own defects, at different call sites
//	callee-defect-duplicated    the same messages about a local callee's own defects, reported a different number of times
//	moved:<kinds>               same messages at different positions (other than the above)
//	content:<kinds>             different sets of messages
//	stdout                      same diagnostics, different rendered bytes
//
// lastDiffAllCallee / lastDiffMsgs describe the last difference firstDiff classified: whether all
// differing diagnostics are about a local callee's own defects, and their messages.
var (
	lastDiffAllCallee bool
	lastDiffMsgs      []string
)

func firstDiff(a, b lintCmp) (what string, class string) {
	lastDiffAllCallee, lastDiffMsgs = false, nil
	exitDiff := fmt.Sprintf("exit status %d (fatal=%v) versus %d (fatal=%v)", a.Exit, a.Fatal, b.Exit, b.Fatal)
	if a.Fatal != b.Fatal || (a.Exit != b.Exit && (a.Exit == 3 || b.Exit == 3)) {
		return exitDiff, "exit"
	}
	// (status 0 versus 1 follows from the diagnostics: classified by what differs there)
	cnt := map[ErrRec]int{}
	for _, e := range a.Errs {
		cnt[e]++
	}
	for _, e := range b.Errs {
		cnt[e]--
	}
	var onlyA, onlyB []ErrRec
	for _, e := range a.Errs {
		if cnt[e] > 0 {
			cnt[e]--
			onlyA = append(onlyA, e)
		}
	}
	for _, e := range b.Errs {
		if cnt[e] < 0 {
			cnt[e]++
			onlyB = append(onlyB, e)
		}
	}
	if len(onlyA) == 0 && len(onlyB) == 0 {
		for i := range a.Errs {
			if a.Errs[i] != b.Errs[i] {
				return fmt.Sprintf("the same %d diagnostics come in a different order; first difference at #%d:\n    canonical: %s\n    this run:  %s", len(a.Errs), i+1, a.Errs[i], b.Errs[i]),
					"order:" + a.Errs[i].Kind + ":" + msgClass(a.Errs[i].Msg)
			}
		}
		if a.Stdout != b.Stdout {
			al, bl := strings.Split(a.Stdout, "\n"), strings.Split(b.Stdout, "\n")
			for i := 0; i < len(al) && i < len(bl); i++ {
				if al[i] != bl[i] {
					return fmt.Sprintf("stdout line %d differs:\n    canonical: %s\n    this run:  %s", i+1, al[i], bl[i]), "stdout"
				}
			}
			return "stdout differs in length", "stdout"
		}
		if a.Exit != b.Exit {
			return exitDiff, "exit"
		}
		return "", ""
	}
	kinds := map[string]bool{}
	msgs := map[string]int{}
	allCallee := true
	for _, e := range onlyA {
		kinds[e.Kind] = true
		msgs[e.Msg]++
		if !reCalleeDefect.MatchString(e.Msg) {
			allCallee = false
		}
	}
	for _, e := range onlyB {
		kinds[e.Kind] = true
		msgs[e.Msg]--
		if !reCalleeDefect.MatchString(e.Msg) {
			allCallee = false
		}
	}
	sameMsgs := true
	for _, n := range msgs {
		if n != 0 {
			sameMsgs = false
		}
	}
	var b2 strings.Builder
	fmt.Fprintf(&b2, "%d diagnostics versus %d.\n    only in the canonical run:\n", len(a.Errs), len(b.Errs))
	for _, e := range onlyA {
		b2.WriteString("      " + e.String() + "\n")
	}
	b2.WriteString("    only in this run:\n")
	for _, e := range onlyB {
		b2.WriteString("      " + e.String() + "\n")
	}
	lastDiffAllCallee, lastDiffMsgs = allCallee, sortedKeys(msgs)
	ks := strings.Join(sortedKeys(kinds), "+")
	// every differing message also occurs in the other run (at another site or another number of times)
	inBoth := true
	if allCallee && !sameMsgs {
		has := func(es []ErrRec, m string) bool {
			for _, e := range es {
				if e.Msg == m {
					return true
				}
			}
			return false
		}
		for m, n := range msgs {
			if n != 0 && !(has(a.Errs, m) && has(b.Errs, m)) {
				inBoth = false
			}
		}
	}
	switch {
	case allCallee && !sameMsgs && inBoth:
		return "a defect of a local callee is reported a different number of times (the property says: once per run).\n    " + b2.String(), "callee-defect-duplicated"
	case sameMsgs && allCallee:
		return "the same defect(s) of a local callee are reported at a different call site.\n    " + b2.String(), "callee-defect-attribution"
	case sameMsgs:
		return "the same messages are reported at different positions.\n    " + b2.String(), "moved:" + ks
	}
	return b2.String(), "content:" + ks
}

func (c02) Eval(c *Chooser, env *Env) *Outcome {
	o := &Outcome{}
	opts := GenOpts{Ties: true, GenIface: true, Corpus: true, Projects: true, Defective: true, Loose: true, SelfArg: true, PathConfigs: true, MaxRepos: 2, MaxFiles: 3}
	switch env.Variant {
	case "single":
		opts.MaxRepos, opts.MaxFiles = 1, 1
	}
	mw := GenMulti(c, opts)
	if env.Variant == "single" && len(mw.Files) > 1 {
		mw.Files, mw.AbsArgs = mw.Files[:1], mw.AbsArgs[:1]
	}
	w := mw.World
	viarepo := false
	if env.Variant != "single" && c.Weighted("world.viarepo", 1, 6) {
		viarepo = true
		// no arguments: the files are found by walking .github/workflows of the repository of the cwd
		w.API, w.Files, w.Cwd = APIRepo, []string{""}, mw.Repos[0].Root
	}
	// output mode
	allKinds := false
	switch c.Int("world.outmode", 5) {
	case 4:
		// the line template plus the rule table of the formatter (iterated from a map)
		w.Opts.Format = "{{range $ := .}}{{$.Filepath}}:{{$.Line}}:{{$.Column}}: {{$.Message}} [{{$.Kind}}]\n{{end}}kinds {{range allKinds}}{{.Name}},{{end}}\n"
		allKinds = true
	case 1:
		w.Opts.Oneline = true
	case 2:
		w.Opts.Format = "{{json .}}"
	case 3:
		w.Opts.Format = "{{range $ := .}}{{$.Filepath}}:{{$.Line}}:{{$.Column}}: {{$.Message}} [{{$.Kind}}]\n{{end}}"
	}
	if env.Variant != "single" && w.API == APIFiles && c.Weighted("world.missingarg", 1, 12) {
		// one argument names a file that does not exist: the run is fatal, and what it prints
		// before that (nothing) is as much a function of the inputs as any other output
		at := c.Int("world.missingargpos", len(w.Files)+1)
		fs := append([]string{}, w.Files[:at]...)
		fs = append(fs, mw.Repos[0].Root+"/.github/workflows/does-not-exist.yml")
		w.Files = append(fs, w.Files[at:]...)
		o.probe("missing_argument_file", 1)
	}
	if c.Weighted("world.tools", 1, 6) {
		// the shellcheck / pyflakes integrations are on: tool latencies and completion order join the schedule
		w.Tools = &Tools{}
		w.Opts.Shellcheck, w.Opts.Pyflakes = "shellcheck", "pyflakes"
		o.probe("tools_enabled", 1)
	}
	if env.Variant != "single" && c.Weighted("world.viamain", 1, 4) {
		// the same run through the command line entry point: flags, stdout and the exit status
		args := []string{"-no-color", "-shellcheck=" + w.Opts.Shellcheck, "-pyflakes=" + w.Opts.Pyflakes}
		if w.Opts.Oneline {
			args = append(args, "-oneline")
		}
		if w.Opts.Format != "" {
			args = append(args, "-format", w.Opts.Format)
		}
		if w.API == APIFiles {
			args = append(args, w.Files...)
		}
		w.API, w.Args = APIMain, args
		o.probe("through_command_main", 1)
	}
	ApplyLogLevel(c, w)
	o.World = w
	if kern.RaceLane {
		// race lane: one concurrent run per world; the detector's log is read by the worker
		r := RunLint(w, c, RunOpts{KeepTrace: env.KeepTrace})
		o.addRun(r.K)
		o.Nontrivial = r.K.MaxRunnable >= 2
		o.Sig = w.Hash() ^ r.K.TraceHash
		return o
	}
	kind := c.Int("world.variantkind", 13) // 0,1: schedule+map order; 2: + other CPU count; 3: repeated execution; 4: repeated call on one Linter; 5: another GOMAXPROCS
	r0 := RunLint(w, nil, RunOpts{Canonical: true})
	o.addRun(r0.K)
	if v := runFailure("C02", r0.K); v != nil {
		// crashes are C01's business; C02 only compares runs that complete
		o.probe("canonical_run_failed:"+v.Class, 1)
		return o
	}
	w2 := *w
	ro := RunOpts{KeepTrace: env.KeepTrace}
	desc := "seeded schedule, map-iteration orders and tool latencies"
	switch kind {
	case 2:
		w2.CPUs = []int{1, 2, 3, 4, 8, 16}[c.Int("world.cpus2", 6)]
		desc += fmt.Sprintf(", NumCPU=%d instead of %d", w2.CPUs, w.CPUs)
	case 3:
		ro.Repeat = 2
		desc += ", second execution in the same process"
	case 4:
		ro.Repeat = 2
		ro.ReuseLinter = true
		desc += ", second call on the same Linter instance"
	case 10:
		// an embedding program that keeps one Command object: it ran the same files with -ignore flags before
		if w.API == APIMain {
			ro.ReuseLinter = true
			ro.PriorArgs = append([]string{"-ignore", ".+", "-ignore", "is unknown", "-oneline"}, w.Args...)
			desc += ", on a Command object that ran the same arguments with two -ignore flags before"
		}
	case 8:
		// the Linter instance has linted a file that is not YAML at all before (no rule ever ran for it)
		if w.API != APIMain {
			w.Disk.Put("/w/not-yaml-at-all.yml", []byte("a: [\n"))
			ro.ReuseLinter = true
			ro.PriorFile = "/w/not-yaml-at-all.yml"
			desc += ", on a Linter instance that linted a file that is not YAML before"
		}
	case 9:
		// a library user whose process runs elsewhere: LinterOptions.WorkingDir names the directory the
		// canonical run had as its working directory, the arguments are absolute
		if w.API == APIRepo {
			// no arguments: the repository of LinterOptions.WorkingDir is linted, wherever the process is
			w2.Opts.WorkingDir = w.Cwd
			w2.Cwd = []string{"/", "/elsewhere", mw.Repos[len(mw.Repos)-1].Root}[c.Int("world.processcwd", 3)]
			w.Disk.MkdirAll(w2.Cwd)
			desc += fmt.Sprintf(", process working directory %s with LinterOptions.WorkingDir=%s and no arguments", w2.Cwd, w.Cwd)
		}
		if w.API == APIFiles {
			w2.Opts.WorkingDir = w.Cwd
			w2.Cwd = []string{"/", "/elsewhere", mw.Repos[len(mw.Repos)-1].Root + "/.github"}[c.Int("world.processcwd", 3)]
			w.Disk.MkdirAll(w2.Cwd)
			w2.Files = append([]string{}, mw.AbsArgs...)
			if len(w2.Files) != len(w.Files) {
				w2.Files = nil // (a missing argument was added: keep the spelled list)
				for _, f := range w.Files {
					if !strings.HasPrefix(f, "/") {
						f = path.Join(w.Cwd, f)
					}
					w2.Files = append(w2.Files, f)
				}
			}
			desc += fmt.Sprintf(", process working directory %s with LinterOptions.WorkingDir=%s and absolute arguments", w2.Cwd, w.Cwd)
		}
	case 7:
		// the Linter instance has linted a repository of the world before (a long-lived library user)
		// (`allKinds` lists the rules registered on the instance so far - cumulative by design and
		// not a diagnostic - so that template is left out of this variant)
		if w.API != APIMain && !allKinds {
			ro.ReuseLinter = true
			ro.PriorRepo = mw.Repos[c.Int("world.priorrepo", len(mw.Repos))].Root
			desc += ", on a Linter instance that linted repository " + ro.PriorRepo + " before"
			if _, ok := w.Tools.(*Tools); ok && c.Weighted("world.toolmoves", 1, 2) {
				// ... and the tools were upgraded meanwhile: their copies in /usr/bin are gone, PATH finds
				// others. The reference is a fresh Linter in that later environment.
				ro.ToolMoves = 2
				r0 = RunLint(w, nil, RunOpts{Canonical: true, ToolMoves: 1})
				o.addRun(r0.K)
				if v := runFailure("C02", r0.K); v != nil {
					o.probe("canonical_run_failed:"+v.Class, 1)
					return o
				}
				desc += ", the tools having moved from /usr/bin to /usr/local/bin after that call"
				o.probe("tools_moved_between_calls", 1)
			}
			if c.Weighted("world.prioroutfail", 1, 3) {
				// ... while its output could not be written (a closed pipe): that call failed, this one must not care
				ro.PriorOutFail = 1 + c.Int("world.prioroutfailat", 300)
				desc += fmt.Sprintf(" and whose output writer failed after %d bytes during that call", ro.PriorOutFail-1)
			}
		}
	case 12:
		// the Linter instance looked at a file of a repository before that repository was initialised
		// (its .git did not exist yet): whatever it remembered about "no repository here" must not
		// outlive the change - the reference is a fresh Linter now
		if w.API == APIFiles && !kern.RaceLane && len(mw.AbsArgs) > 0 {
			ro.ReuseLinter = true
			ro.PriorFile = mw.AbsArgs[0]
			for _, r := range mw.Repos {
				if strings.HasPrefix(ro.PriorFile, r.Root+"/") && len(r.Root) > len(ro.PriorHideDir)-5 {
					ro.PriorHideDir = r.Root + "/.git"
				}
			}
			desc += ", on a Linter instance that linted " + ro.PriorFile + " before its repository was initialised (" + ro.PriorHideDir + " did not exist)"
			o.probe("repository_initialised_between_two_calls", 1)
		}
	case 11:
		// an embedding program (an editor integration) that hands each document to Lint in one buffer
		// it reuses: before each file the buffer held, and another Linter linted, a text of the same
		// length whose lines begin elsewhere. The reference is the same sequence of Lint calls without
		// that earlier use of the buffer.
		if w.API == APIFiles && w.Opts.Format == "" && w.Tools == nil {
			wm := *w
			wm.API = APIMem
			r0 = RunLint(&wm, nil, RunOpts{Canonical: true})
			o.addRun(r0.K)
			if v := runFailure("C02", r0.K); v != nil || r0.Fatal != "" {
				o.probe("canonical_run_failed:mem", 1)
				return o
			}
			w2.API, w2.MemPrior = APIMem, true
			desc += ", every file linted from memory (Lint) out of one reused buffer that held another text of the same length before"
			o.probe("lint_from_a_reused_buffer", 1)
		}
	case 6:
		// another moment: the wall clock of the run differs by some minutes / hours / days
		ro.EpochOffset = []int64{60, 7 * 60, 25 * 60, 37 * 60, 40 * 60, 49 * 60, 3600*5 + 38*60, 86400 * 3, 86400*200 + 1234}[c.Int("world.epoch", 9)]
		desc += fmt.Sprintf(", wall clock %d s later", ro.EpochOffset)
	case 5:
		w2.GoMaxProcs = []int{1, 2, 4, 16, 64}[c.Int("world.gmp2", 5)]
		desc += fmt.Sprintf(", GOMAXPROCS=%d", w2.GoMaxProcs)
	}
	r1 := RunLint(&w2, c, ro)
	o.addRun(r1.K)
	if env.KeepTrace {
		o.Traces = append(o.Traces, r1.K.Trace)
	}
	o.Nontrivial = r1.K.MaxRunnable >= 2 || r1.SitesMulti > 0 || kind >= 2
	o.Sig = w.Hash() ^ r1.K.TraceHash ^ r1.ModeSig ^ uint64(kind)<<60
	o.Sample = map[string]any{"files": mw.Files, "cwd": w.Cwd, "cpus": w.CPUs, "groups": mw.Groups, "variant": desc, "diagnostics": len(r0.Errs),
		"kernel_steps": r1.K.Steps, "tasks": r1.K.Tasks, "max_runnable": r1.K.MaxRunnable, "nonidentity_sites_exercised": r1.SitesMulti}
	if r1.K.MaxRunnable >= 2 {
		o.probe("runs_with_concurrent_file_tasks", 1)
	}
	if v := runFailure("C02", r1.K); v != nil {
		o.probe("variant_run_failed:"+v.Class, 1)
		return o
	}
	o.Digest = DigestOf(r0.Stdout, r0.Exit, r0.Errs, r1.Stdout, r1.Exit, r1.Errs)
	if what, kinds := firstDiff(cmpOf(r0), cmpOf(r1)); what != "" {
		if kinds == "callee-defect-attribution" && len(w.Files) == 1 && !viarepo {
			// within one file the call site that reports a callee's defect is decided by the job
			// visiting order, which is the source order: only multi-file runs may differ (known finding)
			kinds = "callee-defect-attribution:single-file"
		}
		if lastDiffAllCallee && (len(w.Files) > 1 || viarepo) && kinds != "callee-defect-attribution" {
			// the single report of a callee's defect went, in one of the two runs, to a call site in a
			// file whose paths-ignore patterns filter it: the same schedule-dependent attribution, seen
			// through the filter (known finding of C10, listed for C02 as well)
			consumed := true
			for _, m := range lastDiffMsgs {
				if !consumedByIgnore(mw, m) {
					consumed = false
				}
			}
			if consumed {
				kinds = "callee-defect-consumed-by-ignored-file"
			}
		}
		o.V = &Violation{Oracle: "same-output", Class: kinds,
			Message: fmt.Sprintf("the same files, configuration and options produced different results under %s.\n  %s", desc, what),
			Detail:  map[string]any{"canonical_diagnostics": FormatErrs(r0.Errs), "this_run_diagnostics": FormatErrs(r1.Errs), "canonical_fatal": r0.Fatal, "this_run_fatal": r1.Fatal}}
	}
	return o
}
