package harness

import (
	"errors"
	"fmt"
	"io"
	"sort"
	"strings"

	"verifsim/sim/kern"
)

// C01 - no panic, crash or hang: the fault-reachable slice only.
//
// The property quantifies over all byte strings; that is input fuzzing and is
// NOT what this check decides. It decides the part faults reach: well-formed
// projects whose input channels (workflow file, local action metadata, local
// reusable workflow, actionlint.yaml, stdin) are hit by disk faults at
// arbitrary instants of a concurrent multi-file run.

type c01 struct{}

func init() { Register(c01{}) }

func (c01) ID() string { return "C01" }

var contentFaults = []string{kern.FTorn, kern.FZeroed, kern.FDupBlock, kern.FSwapBlock, kern.FBitflip, kern.FRewritten}
var errorFaults = []string{kern.FReadEIO, kern.FReadEACCES, kern.FReadENOENT, kern.FReadEISDIR}

// faultyReader fails after n bytes (stdin-error) or returns data in tiny pieces (stdin-short-reads).
type faultyReader struct {
	data  []byte
	fail  int // -1: never fail
	chunk int
	pos   int
}

func (r *faultyReader) Read(p []byte) (int, error) {
	if r.fail >= 0 && r.pos >= r.fail {
		return 0, errors.New("read /dev/stdin: input/output error")
	}
	if r.pos >= len(r.data) {
		return 0, io.EOF
	}
	n := len(p)
	if r.chunk > 0 && n > r.chunk {
		n = r.chunk
	}
	if r.pos+n > len(r.data) {
		n = len(r.data) - r.pos
	}
	if r.fail >= 0 && r.pos+n > r.fail {
		n = r.fail - r.pos
	}
	copy(p, r.data[r.pos:r.pos+n])
	r.pos += n
	return n, nil
}

func channelFiles(d *kern.Disk, args []string) (wf, callee, cfg []string) {
	isArg := map[string]bool{}
	for _, a := range args {
		isArg[a] = true
	}
	for _, p := range d.SortedFiles() {
		switch {
		case strings.HasSuffix(p, "/actionlint.yaml") || strings.HasSuffix(p, "/actionlint.yml"):
			cfg = append(cfg, p)
		case strings.HasSuffix(p, "/action.yml") || strings.HasSuffix(p, "/action.yaml"):
			callee = append(callee, p)
		case isArg[p]:
			wf = append(wf, p)
		case strings.Contains(p, "/workflows/") && (strings.HasSuffix(p, ".yml") || strings.HasSuffix(p, ".yaml")):
			callee = append(callee, p)
		}
	}
	return
}

// c01Invariants are the always-on checks of one run.
func c01Invariants(res *LintResult, desc string) *Violation {
	if v := runFailure("C01", res.K); v != nil {
		v.Message += " [faults: " + desc + "]"
		return v
	}
	if res.Exit != 0 && res.Exit != 1 && res.Exit != 3 {
		return &Violation{Oracle: "exit-status", Class: fmt.Sprintf("exit-%d", res.Exit), Message: fmt.Sprintf("exit status %d is none of 0, 1, 3 (stderr: %s) [faults: %s]", res.Exit, firstLine(res.Stderr), desc)}
	}
	if strings.Contains(res.Stdout, "panic:") || strings.Contains(res.Stderr, "panic:") || strings.Contains(res.Stderr, "fatal error:") {
		return &Violation{Oracle: "no-panic", Class: "panic-text-in-output", Message: "the output contains a Go panic / fatal error text: " + firstLine(res.Stderr)}
	}
	return nil
}

// c01TornEnum enumerates EVERY truncation offset (crash point of the writer) of
// one channel file of a generated world - thorough tier; the quick tier takes
// every 16th offset from a seeded phase.
func c01TornEnum(c *Chooser, env *Env) *Outcome {
	o := &Outcome{}
	mw := GenMulti(c, GenOpts{Ties: true, Corpus: true, Projects: true, Defective: true, SelfArg: true, PathConfigs: true, MaxRepos: 1, MaxFiles: 2})
	w := mw.World
	w.API = APIMain
	w.Args = append([]string{"-no-color", "-shellcheck=", "-pyflakes="}, w.Files...)
	if c.Bool("world.snippets") {
		w.Args = append([]string{"-format", "{{range $ := .}}{{$.Filepath}}:{{$.Line}}:{{$.Column}}:{{$.Snippet}}\n{{end}}"}, w.Args...)
	}
	o.World = w
	wfs, callees, cfgs := channelFiles(w.Disk, mw.AbsArgs)
	targets := append(append(append([]string{}, wfs...), callees...), cfgs...)
	sort.Strings(targets)
	if len(targets) == 0 {
		return o
	}
	t := targets[c.Int("fault.target", len(targets))]
	size := len(w.Disk.Files[t])
	step, phase := 1, 0
	if env.Tier != "thorough" {
		step = 16
		phase = c.Int("fault.phase", step)
	}
	nth := c.Int("fault.nth", 2) // every read, or only the first
	o.Sig = w.Hash() ^ uint64(size)<<32 ^ uint64(phase)
	for off := phase; off <= size; off += step {
		w.Faults = []kern.Fault{{Kind: kern.FTorn, Path: t, Nth: nth, Off: off}}
		res := RunLint(w, nil, RunOpts{Canonical: true, KeepTrace: env.KeepTrace && false})
		o.addRun(res.K)
		if res.K.FaultsFired[kern.FTorn] > 0 {
			o.Nontrivial = true
			o.probe("torn_offsets_executed", 1)
		}
		if v := c01Invariants(res, fmt.Sprintf("torn@%s[nth=%d off=%d of %d]", t, nth, off, size)); v != nil {
			v.Class = "torn-enum:" + v.Class
			o.V = v
			break
		}
	}
	o.Sample = map[string]any{"mode": "torn-offset enumeration", "file": t, "size": size, "offset_step": step, "runs": o.Runs, "args": w.Args}
	return o
}

// c01InitConfig runs `actionlint -init-config` in a generated repository, with and without a
// full disk: a write failure is a fatal error (status 3), never a crash; success writes a file
// that parses as a configuration.
func c01InitConfig(c *Chooser, env *Env) *Outcome {
	o := &Outcome{}
	mw := GenMulti(c, GenOpts{MaxRepos: 1, MaxFiles: 1})
	w := mw.World
	w.API = APIMain
	root := mw.Repos[0].Root
	w.Cwd = []string{root, root + "/.github/workflows", "/"}[c.Int("world.cwd", 3)]
	w.Args = []string{"-init-config"}
	target := root + "/.github/actionlint.yaml"
	full := c.Bool("fault.enospc")
	if full {
		w.Faults = []kern.Fault{{Kind: kern.FWriteNoSpc, Path: target}}
	}
	o.World = w
	res := RunLint(w, c, RunOpts{KeepTrace: env.KeepTrace})
	o.addRun(res.K)
	o.Nontrivial = res.K.FaultsFired[kern.FWriteNoSpc] > 0
	o.Sig = w.Hash()
	o.Sample = map[string]any{"mode": "-init-config", "cwd": w.Cwd, "disk_full": full, "exit": res.Exit, "stderr": firstLine(res.Stderr)}
	if v := c01Invariants(res, fmt.Sprintf("write-enospc=%v", full)); v != nil {
		o.V = v
		return o
	}
	if res.K.FaultsFired[kern.FWriteNoSpc] > 0 && (res.Exit != 3 || strings.TrimSpace(res.Stderr) == "") {
		o.V = &Violation{Oracle: "io-fault-is-fatal", Class: "write-failure-not-fatal",
			Message: fmt.Sprintf("writing the default configuration failed (no space left on device) but the exit status is %d (stderr %q)", res.Exit, firstLine(res.Stderr))}
		return o
	}
	if res.Exit == 0 {
		b, ok := res.K.Written[target]
		if !ok {
			o.V = &Violation{Oracle: "init-config", Class: "config-not-written", Message: "-init-config exited with status 0 but did not write " + target}
			return o
		}
		if _, err := FreshConfigFingerprint(string(b)); err != nil {
			o.V = &Violation{Oracle: "init-config", Class: "generated-config-invalid", Message: "the generated default configuration does not parse: " + err.Error()}
		}
	}
	return o
}

func (c01) Eval(c *Chooser, env *Env) *Outcome {
	if env.Variant == "tornenum" {
		return c01TornEnum(c, env)
	}
	if env.Variant == "" && c.Weighted("world.initconfig", 1, 40) {
		return c01InitConfig(c, env)
	}
	o := &Outcome{}
	opts := GenOpts{Ties: true, Clone: true, Anomalies: true, Symlinks: true, Corpus: true, Projects: true, Defective: true, Loose: true, SelfArg: true, PathConfigs: true, MaxRepos: 2, MaxFiles: 3}
	mw := GenMulti(c, opts)
	w := mw.World
	w.API = APIMain
	o.World = w
	wfs, callees, cfgs := channelFiles(w.Disk, mw.AbsArgs)
	// entry mode
	mode := c.Int("world.mode", 6) // 0-2 files, 3 no argument (directory walk), 4 stdin, 5 explicit -config-file
	var flags []string
	switch c.Int("world.outmode", 4) {
	case 1:
		flags = append(flags, "-oneline")
	case 2:
		flags = append(flags, "-format", "{{json .}}")
	case 3:
		flags = append(flags, "-format", "{{range $ := .}}{{$.Filepath}}:{{$.Line}}:{{$.Column}}:{{$.Snippet}}\n{{end}}")
	}
	// a third of the worlds have the integrations enabled, with working or broken tools
	toolsDesc := ""
	if c.Weighted("world.tools", 1, 3) {
		tm := &Tools{Broken: map[string]ToolFault{}}
		kinds := []ToolFault{TFNone, TFNonzeroEmpty, TFCannotStart, TFKilled, TFGarbage, TFEmptyOK, TFJSONGarbage, TFNullElement, TFExit137}
		if k := kinds[c.Int("fault.shellcheck", len(kinds))]; k != TFNone {
			tm.Broken["shellcheck"] = k
			toolsDesc += "shellcheck=" + string(k) + " "
		}
		pk := []ToolFault{TFNone, TFNonzeroEmpty, TFCannotStart, TFKilled, TFNoNewline, TFExit137}
		if k := pk[c.Int("fault.pyflakes", len(pk))]; k != TFNone {
			tm.Broken["pyflakes"] = k
			toolsDesc += "pyflakes=" + string(k) + " "
		}
		if c.Weighted("fault.flood", 1, 60) {
			// the first invocation of one tool floods its output (5 MiB, far more than a pipe holds)
			ft := []string{"shellcheck", "pyflakes"}[c.Int("fault.floodtool", 2)]
			tm.FloodOnce = map[string]bool{ft: true}
			toolsDesc += ft + "=" + string(TFFlood) + "(first invocation) "
		}
		w.Tools = tm
		flags = append(flags, "-no-color")
	} else {
		flags = append(flags, "-no-color", "-shellcheck=", "-pyflakes=")
	}
	switch c.Int("world.logflag", 6) {
	case 1:
		flags = append(flags, "-verbose")
	case 2:
		flags = append(flags, "-debug")
	}
	explicitCfg := ""
	var stdin *faultyReader
	switch mode {
	case 3:
		w.Cwd = mw.Repos[0].Root
		w.Args = flags
		if c.Weighted("world.linkloops", 1, 5) {
			// symbolic links in the walked directory that lead back into it (a "current" link, a backup link)
			wd := mw.Repos[0].Root + "/.github/workflows"
			w.Disk.Symlink(wd+"/current", ".")
			w.Disk.Symlink(wd+"/latest", ".")
			w.Disk.Symlink(wd+"/up", "..")
		}
	case 4:
		src := w.Disk.Files[mw.AbsArgs[0]]
		stdin = &faultyReader{data: src, fail: -1}
		if c.Bool("world.stdinname") {
			flags = append(flags, "-stdin-filename", mw.Files[0])
		}
		w.Args = append(flags, "-")
	case 5:
		if len(cfgs) > 0 {
			explicitCfg = cfgs[c.Int("world.cfgsel", len(cfgs))]
			flags = append(flags, "-config-file", explicitCfg)
		}
		w.Args = append(flags, w.Files...)
	default:
		w.Args = append(flags, w.Files...)
	}
	// fault plan
	nf := c.Int("fault.n", 4)
	mustFatal := ""
	mustIdx := -1
	var desc []string
	if toolsDesc != "" {
		desc = append(desc, "tools: "+strings.TrimSpace(toolsDesc))
	}
	targets := append(append(append([]string{}, wfs...), callees...), cfgs...)
	sort.Strings(targets)
	for i := 0; i < nf && len(targets) > 0; i++ {
		switch k := c.Int("fault.family", 10); {
		case k <= 4: // content fault on a channel file
			kind := contentFaults[c.Int("fault.ckind", len(contentFaults))]
			t := targets[c.Int("fault.target", len(targets))]
			size := len(w.Disk.Files[t])
			f := kern.Fault{Kind: kind, Path: t, Nth: c.Int("fault.nth", 3)}
			f.Off = c.Int("fault.off", size+1)
			f.Len = 1 + c.Int("fault.len", 64)
			f.Seed = uint64(c.Int("fault.seed", 1<<16))
			if kind == kern.FBitflip {
				f.Len = 1 + c.Int("fault.bits", 8)
			}
			if kind == kern.FRewritten {
				// the second read of the same path sees other, valid content
				other := targets[c.Int("fault.alt", len(targets))]
				f.Alt = w.Disk.Files[other]
				if f.Nth == 0 {
					f.Nth = 2
				}
			}
			w.Faults = append(w.Faults, f)
			desc = append(desc, fmt.Sprintf("%s@%s[nth=%d off=%d]", kind, t, f.Nth, f.Off))
		case k <= 6: // read error
			kind := errorFaults[c.Int("fault.ekind", len(errorFaults))]
			t := targets[c.Int("fault.target", len(targets))]
			f := kern.Fault{Kind: kind, Path: t, Nth: c.Int("fault.nth", 3)}
			w.Faults = append(w.Faults, f)
			desc = append(desc, fmt.Sprintf("%s@%s[nth=%d]", kind, t, f.Nth))
			// only a persistent error (every access fails) is certain to hit the read that matters
			if f.Nth == 0 && kind != kern.FReadENOENT {
				if (mode <= 2 || mode == 5) && containsStr(wfs, t) {
					mustFatal, mustIdx = "an argument workflow file cannot be read ("+kind+")", len(w.Faults)-1
				}
				if t == explicitCfg {
					mustFatal, mustIdx = "the configuration file given with -config-file cannot be read ("+kind+")", len(w.Faults)-1
				}
				if containsStr(cfgs, t) && t != explicitCfg && mustFatal == "" {
					// a repository's own configuration: a read error other than "does not exist" is
					// fatal on every route - if the run got as far as reading it (the hit is checked below)
					mustFatal, mustIdx = "a repository's configuration file cannot be read ("+kind+")", len(w.Faults)-1
				}
			}
		case k == 7: // by I/O operation index, whatever the path
			kinds := []string{kern.FReadEIO, kern.FStatErr, kern.FTorn}
			kind := kinds[c.Int("fault.ikind", len(kinds))]
			f := kern.Fault{Kind: kind, OpIndex: 1 + c.Int("fault.opindex", 40), Off: c.Int("fault.off", 200)}
			w.Faults = append(w.Faults, f)
			desc = append(desc, fmt.Sprintf("%s@io-op#%d", kind, f.OpIndex))
		case k == 8:
			if mode == 3 {
				dir := mw.Repos[0].Root + "/.github/workflows"
				w.Faults = append(w.Faults, kern.Fault{Kind: kern.FWalkErr, Path: dir})
				desc = append(desc, "walk-error@"+dir)
				mustFatal, mustIdx = "the workflows directory cannot be listed", len(w.Faults)-1
			} else {
				w.Faults = append(w.Faults, kern.Fault{Kind: kern.FGetwdErr})
				desc = append(desc, "getwd-error")
			}
		case k == 9:
			if stdin != nil {
				if c.Bool("fault.stdinkind") {
					stdin.fail = c.Int("fault.stdinat", len(stdin.data)+1)
					desc = append(desc, fmt.Sprintf("stdin-error@%d", stdin.fail))
					mustFatal, mustIdx = "stdin cannot be read", -2
				} else {
					stdin.chunk = 1 + c.Int("fault.chunk", 7)
					desc = append(desc, fmt.Sprintf("stdin-short-reads(%d)", stdin.chunk))
				}
			} else {
				// stat / lstat failure on any file or directory of the disk (entry points of local
				// actions, Dockerfiles, directory entries met by the walk, .git, .github/workflows)
				all := w.Disk.SortedFiles()
				for d := range w.Disk.Dirs {
					all = append(all, d)
				}
				sort.Strings(all)
				t := all[c.Int("fault.stattarget", len(all))]
				nth := c.Int("fault.nth", 3)
				if len(cfgs) > 0 && c.Weighted("fault.statconfig", 1, 4) {
					// every stat of a repository's configuration file fails (not with "does not exist"): the
					// unchanged code never asks; code that does must not take the error for "no configuration"
					t, nth = cfgs[c.Int("fault.statcfgsel", len(cfgs))], 0
					if mustFatal == "" && t != explicitCfg {
						mustFatal, mustIdx = "the stat of a repository's configuration file fails", len(w.Faults)
					}
				}
				w.Faults = append(w.Faults, kern.Fault{Kind: kern.FStatErr, Path: t, Nth: nth})
				desc = append(desc, "stat-error@"+t)
			}
		}
	}
	// a read error is only certain to hit the read that matters when no other fault competes for the same path
	if mustIdx >= 0 {
		for i, f := range w.Faults {
			if i != mustIdx && (f.Path == w.Faults[mustIdx].Path || f.OpIndex > 0) {
				mustFatal, mustIdx = "", -1
				break
			}
		}
	}
	if stdin != nil {
		w.StdinR = stdin
	}
	ro := RunOpts{KeepTrace: env.KeepTrace}
	if mode <= 2 && w.Tools == nil && c.Weighted("world.twocalls", 1, 5) {
		// a long-lived Linter (editor integration): the same files linted by two calls on one
		// instance through the library API; faults planned for the first access make the first
		// call fail and the second one succeed
		w.API = APIFiles
		ro.Repeat, ro.ReuseLinter = 2, true
		mustFatal, mustIdx = "", -1
		desc = append(desc, "two LintFiles calls on one Linter")
	}
	if !ro.ReuseLinter && c.Weighted("fault.stdoutfails", 1, 10) {
		// the report cannot be written (a closed pipe, a full disk) from some byte on: still no crash,
		// no hang, and one of the documented exit statuses
		w.StdoutFailAt = 1 + c.Int("fault.stdoutfailat", 400)
		desc = append(desc, fmt.Sprintf("stdout-fails-after-%d-bytes", w.StdoutFailAt-1))
	}
	if !ro.ReuseLinter && c.Weighted("fault.logfails", 1, 10) {
		// the log / error stream cannot be written (stderr on a full disk, a closed descriptor) from
		// some byte on - with -verbose / -debug that is in the middle of the run: no crash, no hang,
		// a documented exit status
		w.LogFailAt = 1 + c.Int("fault.logfailat", 300)
		desc = append(desc, fmt.Sprintf("log-writer-fails-after-%d-bytes", w.LogFailAt-1))
	}
	res := RunLint(w, c, ro)
	o.addRun(res.K)
	if env.KeepTrace {
		o.Traces = append(o.Traces, res.K.Trace)
	}
	if res.LogWriteFailures > 0 {
		if o.Faults == nil {
			o.Faults = map[string]int{}
		}
		o.Faults["log-write-error"] += res.LogWriteFailures
	}
	if w.StdoutFailAt > 0 {
		if o.Faults == nil {
			o.Faults = map[string]int{}
		}
		o.Faults["stdout-write-error"]++
	}
	fired := 0
	for _, n := range res.K.FaultsFired {
		fired += n
	}
	if stdin != nil && (stdin.fail >= 0 || stdin.chunk > 0) {
		fired++
		if o.Faults == nil {
			o.Faults = map[string]int{}
		}
		if stdin.fail >= 0 {
			o.Faults["stdin-error"]++
		} else {
			o.Faults["stdin-short-reads"]++
		}
	}
	o.Nontrivial = fired > 0
	o.Sig = w.Hash() ^ res.K.TraceHash
	o.Sample = map[string]any{"args": w.Args, "cwd": w.Cwd, "cpus": w.CPUs, "faults_planned": desc, "faults_fired": res.K.FaultsFired, "exit": res.Exit,
		"stderr": firstLine(res.Stderr), "io_ops": res.K.IOOps, "tasks": res.K.Tasks}
	o.Digest = DigestOf(res.Stdout, res.Exit, res.Errs, res.Fatal != "")
	if v := runFailure("C01", res.K); v != nil {
		v.Message += " [faults: " + strings.Join(desc, ", ") + "]"
		o.V = v
		return o
	}
	if res.Exit != 0 && res.Exit != 1 && res.Exit != 3 {
		o.V = &Violation{Oracle: "exit-status", Class: fmt.Sprintf("exit-%d", res.Exit), Message: fmt.Sprintf("exit status %d is none of 0, 1, 3 (stderr: %s)", res.Exit, firstLine(res.Stderr))}
		return o
	}
	if strings.Contains(res.Stdout, "panic:") || strings.Contains(res.Stderr, "panic:") || strings.Contains(res.Stderr, "fatal error:") {
		o.V = &Violation{Oracle: "no-panic", Class: "panic-text-in-output", Message: "the output contains a Go panic / fatal error text: " + firstLine(res.Stderr)}
		return o
	}
	if mustFatal != "" && (mustIdx == -2 || res.K.FaultHits[mustIdx] > 0) {
		// (a stderr that cannot be written stays empty: then only the status is demanded)
		if res.Exit != 3 || (w.LogFailAt == 0 && strings.TrimSpace(res.Stderr) == "") {
			o.V = &Violation{Oracle: "io-fault-is-fatal", Class: "unreadable-input-not-fatal",
				Message: fmt.Sprintf("%s but the exit status is %d (stderr %q): a fatal I/O error must be reported with status 3 [faults: %s]", mustFatal, res.Exit, firstLine(res.Stderr), strings.Join(desc, ", "))}
			return o
		}
		o.probe("fatal_io_faults_confirmed_status_3", 1)
	}
	return o
}

func containsStr(xs []string, x string) bool {
	for _, y := range xs {
		if y == x {
			return true
		}
	}
	return false
}

func firstLine(s string) string {
	s = strings.TrimSpace(s)
	if i := strings.IndexByte(s, '\n'); i >= 0 {
		s = s[:i]
	}
	if len(s) > 300 {
		s = s[:300]
	}
	return s
}
