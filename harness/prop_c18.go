package harness

import (
	"fmt"
	"regexp"
	"sort"
	"strconv"
	"strings"

	"verifsim/sim/kern"
)

// C18 - job dependency checks are exact for every needs graph.
//
// What the simulator owns here: for a fixed graph the rule's behaviour varies
// with the iteration order of its node map (which node the DFS enters first,
// which back edge is found, which nodes are left active for the cycle
// reconstruction) and with the order jobs are visited. The reference model is
// an SCC computation on the lower-cased graph, written here, independent of
// actionlint.

type c18 struct{}

func init() { Register(c18{}) }

func (c18) ID() string { return "C18" }

type c18Job struct {
	ID    string   // as written
	Needs []string // as written, in written order
	Line  int      // line of the job key
	Stub  string   // "" or what stands in place of the job's body: "~" (nothing / null) or a scalar - a job being written
}

type c18Graph struct {
	Jobs  []c18Job
	Cover string // element of a stated finite universe this graph is, or ""
}

var c18Names = []string{"a", "b", "c", "d", "e", "f", "g", "h"}

// c18Odd are spellings used instead of a..h in some graphs: ids are compared as text, whatever they contain.
var c18Odd = map[string]string{"a": "build%20arm", "b": "b-1", "c": "null", "d": "d%sx", "e": "e_e", "f": "f%d", "g": "g.g", "h": "100%"}

func c18Case(c *Chooser, s string) string {
	if c.Weighted("world.case", 1, 5) {
		return strings.ToUpper(s)
	}
	return s
}

// genC18Small draws uniformly from ALL labelled digraphs over n <= 4 job ids (every edge set,
// self loops included): the small end of the property's quantifier is covered systematically
// rather than by the shapes below; the definition order and the order of needs entries vary.
func genC18Small(c *Chooser) *c18Graph {
	n := []int{1, 2, 3, 3, 4, 4, 4, 4}[c.Int("world.smalln", 8)]
	mask := c.Int("world.edgemask", 1<<(n*n))
	g := &c18Graph{Cover: fmt.Sprintf("digraphs%d:%x", n, mask)}
	order := make([]int, n)
	for i := range order {
		order[i] = i
	}
	if c.Bool("world.smallshuffle") {
		for i := n - 1; i > 0; i-- {
			j := i - c.Int("world.deforder", i+1)
			order[i], order[j] = order[j], order[i]
		}
	}
	rev := c.Bool("world.smallrev")
	for _, v := range order {
		job := c18Job{ID: c18Case(c, c18Names[v])}
		for w := 0; w < n; w++ {
			if mask&(1<<(v*n+w)) != 0 {
				job.Needs = append(job.Needs, c18Case(c, c18Names[w]))
			}
		}
		if rev {
			for i, j := 0, len(job.Needs)-1; i < j; i, j = i+1, j-1 {
				job.Needs[i], job.Needs[j] = job.Needs[j], job.Needs[i]
			}
		}
		g.Jobs = append(g.Jobs, job)
	}
	return g
}

func genC18(c *Chooser) *c18Graph {
	if c.Weighted("world.small", 1, 4) {
		return genC18Small(c)
	}
	// size biased to <= 5
	n := 1 + c.Int("world.njobs", 5)
	if c.Weighted("world.big", 1, 5) {
		n = 6 + c.Int("world.njobs2", 3)
	}
	huge := false
	if c.Weighted("world.huge", 1, 25) {
		// a large workflow (real ones have dozens of jobs)
		n = []int{16, 17, 18, 24, 33, 40}[c.Int("world.njobs3", 6)]
		huge = true
	}
	g := &c18Graph{}
	order := make([]int, n)
	for i := range order {
		order[i] = i
	}
	// random definition order
	for i := n - 1; i > 0; i-- {
		j := i - c.Int("world.deforder", i+1)
		order[i], order[j] = order[j], order[i]
	}
	shape := c.Int("world.shape", 7)
	allowDangling := c.Weighted("world.dangle", 1, 4)
	allowStubs := c.Weighted("world.stubs", 1, 6)
	posOf := make([]int, n) // position of each vertex in the definition order
	for i, v := range order {
		posOf[v] = i
	}
	names := c18Names
	unicodeNames := false
	if huge {
		names = make([]string, n)
		for i := range names {
			names[i] = fmt.Sprintf("j%d", i)
		}
	} else if c.Weighted("world.unicodenames", 1, 20) {
		// ids that are different texts (also after lower-casing) although Unicode case folding relates some of them
		unicodeNames = true
		names = []string{"s", "\u017f", "x", "y", "\u03c3", "\u03c2", "\u00b5", "\u03bc"}
	} else if c.Weighted("world.uppernonascii", 1, 20) {
		// ids with upper-case letters outside ASCII (and their upper-cased spellings in needs)
		names = []string{"\u00dcberpr\u00fcfung", "\u00c4rger", "\u00c9clair", "\u00d1u", "\u0416uk", "\u0394elta", "\u00d8re", "\u00c5ngstr\u00f6m"}
	} else if c.Weighted("world.oddnames", 1, 10) {
		names = make([]string, len(c18Names))
		for i, n := range c18Names {
			names[i] = c18Odd[n]
		}
	}
	for _, v := range order {
		cs := func(x string) string {
			if unicodeNames {
				return x // (changing the case of these would make different ids equal)
			}
			return c18Case(c, x)
		}
		job := c18Job{ID: cs(names[v])}
		for w := 0; w < n; w++ {
			var p int // probability of edge v->w in 1/12
			switch shape {
			case 0: // sparse random
				p = 2
			case 1: // dense random
				p = 6
			case 2: // DAG (edges only to smaller ids) - acyclic
				if w < v {
					p = 5
				}
			case 3: // ring with chords: long cycle
				if w == (v+1)%n {
					p = 11
				} else {
					p = 1
				}
			case 4: // tail into cycle: chain, last nodes cycle
				if w == v+1 {
					p = 10
				} else if v == n-1 && w >= n/2 {
					p = 6
				}
			case 5: // two clusters (several disjoint cycles)
				if (v < n/2) == (w < n/2) {
					p = 5
				}
			case 6: // top-down workflow: every job only needs jobs defined earlier in the file - plus self loops
				if posOf[w] < posOf[v] {
					p = 5
				} else if w == v {
					p = 4
				}
			}
			if w == v && p > 0 && shape != 6 {
				p = 1 // self loops rarer
			}
			den := 12
			if huge && (shape == 0 || shape == 1 || shape == 5) {
				den = 60 // keep large random graphs sparse
			}
			if p > 0 && c.Weighted("world.edge", p, den) {
				job.Needs = append(job.Needs, cs(names[w]))
				if c.Weighted("world.dupedge", 1, 16) {
					job.Needs = append(job.Needs, cs(names[w]))
				}
			}
		}
		if allowDangling && c.Weighted("world.dangling", 1, 4) {
			dn := "zz" + strconv.Itoa(c.Int("world.dname", 2))
			if c.Weighted("world.odddangling", 1, 8) {
				// a missing job whose name no job could have (or could): it is missing all the same
				dn = []string{"gr\u00f6\u00dfe", "2nd-stage", "build.linux", "a b", "_-_", "zz$0"}[c.Int("world.odddname", 6)]
			}
			job.Needs = append(job.Needs, c18Case(c, dn))
			if c.Weighted("world.dupdangling", 1, 4) {
				// the missing job is named twice (possibly in another letter case), anywhere in the list
				job.Needs = append(job.Needs, c18Case(c, dn))
			}
		}
		if allowStubs && c.Weighted("world.stub", 1, 3) {
			// the job exists (its id is a key of `jobs`) but its body is not written yet: it needs nothing
			job.Needs = nil
			job.Stub = []string{"~", "", "todo"}[c.Int("world.stubkind", 3)]
			if job.Stub == "" {
				job.Stub = " "
			}
		}
		// random order of needs entries
		for i := len(job.Needs) - 1; i > 0; i-- {
			j := i - c.Int("world.needorder", i+1)
			job.Needs[i], job.Needs[j] = job.Needs[j], job.Needs[i]
		}
		g.Jobs = append(g.Jobs, job)
	}
	return g
}

func (g *c18Graph) yaml(c *Chooser) string {
	callJobs := c.Weighted("world.calljobs", 1, 6)
	var b strings.Builder
	b.WriteString("on: push\njobs:\n")
	line := 3
	// other legal ways of writing the same graph: quoted keys and entries, CRLF line ends
	// (anchors and aliases are not among them: actionlint, like GitHub at the time, rejects an
	// alias node with a syntax error, so a needs list written as an alias is not a needs list)
	quoting := c.Weighted("world.quoting", 1, 6)
	q := func(s string) string {
		if quoting {
			switch c.Int("world.quote", 3) {
			case 1:
				return "'" + s + "'"
			case 2:
				return `"` + s + `"`
			}
		}
		return s
	}
	for i := range g.Jobs {
		j := &g.Jobs[i]
		j.Line = line
		if j.Stub != "" {
			fmt.Fprintf(&b, "  %s: %s\n", q(j.ID), strings.TrimSpace(j.Stub))
			line++
			continue
		}
		fmt.Fprintf(&b, "  %s:\n", q(j.ID))
		line++
		if len(j.Needs) == 1 && c.Bool("world.scalarneeds") {
			fmt.Fprintf(&b, "    needs: %s\n", q(j.Needs[0]))
			line++
		} else if len(j.Needs) > 0 {
			switch {
			case c.Bool("world.flowneeds"):
				qs := make([]string, len(j.Needs))
				for k, n := range j.Needs {
					qs[k] = q(n)
				}
				fmt.Fprintf(&b, "    needs: [%s]\n", strings.Join(qs, ", "))
				line++
			default:
				b.WriteString("    needs:\n")
				line++
				for _, n := range j.Needs {
					fmt.Fprintf(&b, "      - %s\n", q(n))
					line++
				}
			}
		}
		if callJobs && c.Weighted("world.calljob", 1, 3) {
			// a job that calls a local reusable workflow with a ref, which local calls cannot have: the
			// workflow-call rule remembers the bad spec in the project's cache (shared by all files)
			b.WriteString("    uses: ./.github/workflows/lib.yml@v1\n")
			line++
			if c.Weighted("world.mixedcalljob", 1, 3) {
				// a call job that still carries a section of the normal job it was before (a syntax
				// error of its own): its needs are needs all the same
				extra := []string{"    runs-on: ubuntu-latest\n", "    timeout-minutes: 5\n", "    steps:\n      - run: echo\n"}[c.Int("world.mixedkind", 3)]
				b.WriteString(extra)
				line += strings.Count(extra, "\n")
			}
			continue
		}
		b.WriteString("    runs-on: ubuntu-latest\n    steps:\n      - run: echo\n")
		line += 3
	}
	if c.Weighted("world.crlf", 1, 10) {
		return strings.ReplaceAll(b.String(), "\n", "\r\n")
	}
	return b.String()
}

// reference model ------------------------------------------------------------

type c18Model struct {
	ids      []string            // lower-cased vertex ids
	adj      map[string][]string // lower-cased, de-duplicated, resolved edges only
	edgeSet  map[[2]string]bool
	dangling map[[2]string]int // (job, missing dep) -> number of textual references
	cyclic   bool
}

func (g *c18Graph) model() *c18Model {
	m := &c18Model{adj: map[string][]string{}, edgeSet: map[[2]string]bool{}, dangling: map[[2]string]int{}}
	have := map[string]bool{}
	for _, j := range g.Jobs {
		id := strings.ToLower(j.ID)
		have[id] = true
		m.ids = append(m.ids, id)
	}
	for _, j := range g.Jobs {
		id := strings.ToLower(j.ID)
		for _, n := range j.Needs {
			d := strings.ToLower(n)
			if !have[d] {
				m.dangling[[2]string{id, d}]++
				continue
			}
			if !m.edgeSet[[2]string{id, d}] {
				m.edgeSet[[2]string{id, d}] = true
				m.adj[id] = append(m.adj[id], d)
			}
		}
	}
	// cycle detection: iterative colouring DFS over all vertices
	const (
		white = 0
		grey  = 1
		black = 2
	)
	col := map[string]int{}
	var visit func(v string) bool
	visit = func(v string) bool {
		col[v] = grey
		for _, w := range m.adj[v] {
			if col[w] == grey {
				return true
			}
			if col[w] == white && visit(w) {
				return true
			}
		}
		col[v] = black
		return false
	}
	for _, v := range m.ids {
		if col[v] == white && visit(v) {
			m.cyclic = true
			break
		}
	}
	return m
}

var (
	reDangling = regexp.MustCompile(`^job "([^"]*)" needs job "([^"]*)" which does not exist in this workflow$`)
	reCycle    = regexp.MustCompile(`^cyclic dependencies in "needs" job configurations are detected\. detected cycle is (.*)$`)
	reDupNeeds = regexp.MustCompile(`duplicates in "needs" section`)
)

// c18Multi lints several graphs as several files of one LintFiles call (the
// rule runs concurrently for all of them) and checks every file exactly.
func c18Multi(c *Chooser, env *Env) *Outcome {
	o := &Outcome{}
	disk := kern.NewDisk()
	disk.MkdirAll("/w/r/.git")
	n := 2 + c.Int("world.nfiles", 3)
	var graphs []*c18Graph
	var models []*c18Model
	w := &World{Disk: disk, Cwd: "/w/r", CPUs: []int{2, 1, 4}[c.Int("world.cpus", 3)], API: APIFiles, Note: "C18 several needs graphs in one run"}
	// the files are named on the command line, or found by walking .github/workflows of the repository
	viaWalk := c.Weighted("world.viawalk", 1, 4)
	var names []string
	for i := 0; i < n; i++ {
		g := genC18(c)
		src := g.yaml(c)
		p := fmt.Sprintf(".github/workflows/g%d.yml", i)
		if c.Weighted("world.symlink", 1, 5) {
			// a workflow kept elsewhere and linked into the workflows directory
			t := fmt.Sprintf("/shared/wf/g%d.yml", i)
			disk.Put(t, []byte(src))
			disk.Symlink("/w/r/"+p, t)
		} else {
			disk.Put("/w/r/"+p, []byte(src))
		}
		names = append(names, p)
		graphs = append(graphs, g)
		models = append(models, g.model())
	}
	if viaWalk {
		if c.Weighted("world.dotfile", 1, 3) {
			// files that are no workflows lie next to them (a placeholder, an editor's leftovers)
			disk.Put("/w/r/.github/workflows/.gitkeep", []byte(""))
			disk.Put("/w/r/.github/workflows/g1.yml.orig", []byte("not a workflow\n"))
		}
		w.API, w.Files = APIRepo, []string{""}
	} else {
		w.Files = names
	}
	if c.Weighted("world.loglevel", 1, 6) {
		// (Verbose wins over Debug when both are set)
		w.Opts.Debug = c.Bool("world.debug")
		w.Opts.Verbose = !w.Opts.Debug
	}
	o.World = w
	res := RunLint(w, c, RunOpts{KeepTrace: env.KeepTrace})
	o.addRun(res.K)
	if env.KeepTrace {
		o.Traces = append(o.Traces, res.K.Trace)
	}
	o.Nontrivial = res.K.MaxRunnable >= 2
	o.Sig = w.Hash() ^ res.K.TraceHash ^ res.ModeSig
	o.Sample = map[string]any{"files": n, "diagnostics": len(res.Errs), "tasks": res.K.Tasks, "kernel_steps": res.K.Steps}
	if v := runFailure("C18", res.K); v != nil {
		o.V = v
		return o
	}
	if res.Fatal != "" {
		o.V = &Violation{Oracle: "no-fatal", Class: "fatal", Message: "linting well-formed needs graphs returned a fatal error: " + res.Fatal}
		return o
	}
	for i := range graphs {
		var mine []ErrRec
		for _, e := range res.Errs {
			if e.File == names[i] {
				mine = append(mine, e)
			}
		}
		if v := c18Check(graphs[i], models[i], mine); v != nil {
			v.Message = fmt.Sprintf("file %s of a %d-file run: %s", names[i], n, v.Message)
			o.V = v
			return o
		}
	}
	return o
}

func (c18) Eval(c *Chooser, env *Env) *Outcome {
	if env.Variant == "multi" {
		return c18Multi(c, env)
	}
	g := genC18(c)
	src := g.yaml(c)
	m := g.model()
	disk := kern.NewDisk()
	disk.Put("/w/r/.github/workflows/t.yml", []byte(src))
	disk.MkdirAll("/w/r/.git")
	if c.Weighted("world.fromapipe", 1, 20) {
		// the workflow arrives through a named pipe / a process substitution: readable, but stat says size 0
		disk.Pipes = map[string]bool{"/w/r/.github/workflows/t.yml": true}
	}
	w := &World{Disk: disk, Cwd: "/w/r", CPUs: 2, API: APIFile, Files: []string{".github/workflows/t.yml"}, Note: "C18 needs graph"}
	if c.Weighted("world.loglevel", 1, 6) {
		// the verdict must not depend on how much the linter logs
		// (Verbose wins over Debug when both are set)
		w.Opts.Debug = c.Bool("world.debug")
		w.Opts.Verbose = !w.Opts.Debug
	}
	res := RunLint(w, c, RunOpts{KeepTrace: env.KeepTrace})
	o := &Outcome{World: w}
	if g.Cover != "" {
		o.Cover = []string{g.Cover}
	}
	o.addRun(res.K)
	multi := res.SitesMulti
	o.Nontrivial = len(g.Jobs) >= 2 && multi > 0
	o.Sig = w.Hash() ^ res.ModeSig
	edges := 0
	for _, a := range m.adj {
		edges += len(a)
	}
	o.Sample = map[string]any{"workflow": src, "jobs": len(g.Jobs), "edges": edges, "dangling": len(m.dangling), "cyclic": m.cyclic,
		"diagnostics": res.Errs, "nonidentity_sites_exercised": multi}
	if m.cyclic {
		o.probe("graphs_cyclic", 1)
	} else {
		o.probe("graphs_acyclic", 1)
	}
	if len(m.dangling) > 0 {
		o.probe("graphs_with_dangling_reference", 1)
	}
	if env.KeepTrace {
		o.Traces = append(o.Traces, res.K.Trace)
	}
	o.Digest = DigestOf(res.Errs, res.Fatal)
	if v := runFailure("C18", res.K); v != nil {
		o.V = v
		return o
	}
	if res.Fatal != "" {
		o.V = &Violation{Oracle: "no-fatal", Class: "fatal", Message: "linting a well-formed needs graph returned a fatal error: " + res.Fatal}
		return o
	}
	o.V = c18Check(g, m, res.Errs)
	return o
}

func c18Check(g *c18Graph, m *c18Model, errs []ErrRec) *Violation {
	lineOf := map[string]int{}
	for _, j := range g.Jobs {
		lineOf[strings.ToLower(j.ID)] = j.Line
	}
	gotDangling := map[[2]string]int{}
	var cycles []ErrRec
	var cyclePath []string
	for _, e := range errs {
		if e.Kind != "job-needs" {
			// diagnostics of other rules (e.g. what the parser says about a stub job) are not this property's business
			continue
		}
		if mm := reDangling.FindStringSubmatch(e.Msg); mm != nil {
			key := [2]string{strings.ToLower(mm[1]), strings.ToLower(mm[2])}
			gotDangling[key]++
			if want, ok := lineOf[key[0]]; !ok || e.Line != want || e.Col != 3 {
				return &Violation{Oracle: "dangling-position", Class: "dangling-position",
					Message: fmt.Sprintf("undefined-job diagnostic is not located at the referring job %q (line %d, col 3): %s", key[0], want, e.String())}
			}
			continue
		}
		if mm := reCycle.FindStringSubmatch(e.Msg); mm != nil {
			p, err := parseCyclePath(mm[1])
			if err != nil {
				return &Violation{Oracle: "cycle-real", Class: "cycle-unparsable", Message: "printed cycle does not parse: " + err.Error() + ": " + e.Msg}
			}
			cycles, cyclePath = append(cycles, e), p
			continue
		}
		if reDupNeeds.MatchString(e.Msg) {
			continue // duplicates inside one needs list: not constrained by the property
		}
		// A message this harness does not know word for word (the wording is not part of the
		// property): read it by its quoted names.
		low := strings.ToLower(e.Msg)
		var names []string
		for _, q := range reQuoted.FindAllString(e.Msg, -1) {
			names = append(names, strings.Trim(q, `"`))
		}
		switch {
		case strings.Contains(low, "cycl"):
			var p []string
			for _, n := range names {
				if _, ok := lineOf[strings.ToLower(n)]; ok {
					p = append(p, n)
				}
			}
			cycles, cyclePath = append(cycles, e), p
		case strings.Contains(low, "duplicat"):
		case strings.Contains(low, "not exist") || strings.Contains(low, "undefined") || strings.Contains(low, "not defined") || strings.Contains(low, "unknown"):
			ref := ""
			for _, n := range names {
				if _, ok := lineOf[strings.ToLower(n)]; ok && ref == "" {
					ref = strings.ToLower(n)
				} else if ref != "" && strings.ToLower(n) != "needs" {
					gotDangling[[2]string{ref, strings.ToLower(n)}]++
					if e.Line != lineOf[ref] {
						return &Violation{Oracle: "dangling-position", Class: "dangling-position",
							Message: fmt.Sprintf("undefined-job diagnostic is not located at the referring job %q (line %d): %s", ref, lineOf[ref], e.String())}
					}
					break
				}
			}
		}
	}
	// every dangling reference reported at least once and at most once per textual reference; nothing foreign
	for key, refs := range m.dangling {
		got := gotDangling[key]
		if got < 1 || got > refs {
			return &Violation{Oracle: "dangling-exact", Class: "dangling-missing",
				Message: fmt.Sprintf("job %q references undefined job %q %d time(s); reported %d time(s)", key[0], key[1], refs, got)}
		}
	}
	for key, got := range gotDangling {
		if _, ok := m.dangling[key]; !ok {
			return &Violation{Oracle: "dangling-exact", Class: "dangling-spurious",
				Message: fmt.Sprintf("job %q reported as needing undefined job %q (%d time(s)) but that reference resolves or does not exist", key[0], key[1], got)}
		}
	}
	if len(m.dangling) > 0 {
		return nil // cycle reporting is only specified when all references resolve
	}
	if !m.cyclic {
		if len(cycles) != 0 {
			return &Violation{Oracle: "cycle-iff", Class: "cycle-on-acyclic", Message: "acyclic graph got a cyclic-dependency diagnostic: " + cycles[0].String()}
		}
		return nil
	}
	if len(cycles) != 1 {
		return &Violation{Oracle: "cycle-iff", Class: fmt.Sprintf("cycle-count-%d", min(len(cycles), 2)),
			Message: fmt.Sprintf("graph has a cycle; expected exactly one cyclic-dependency diagnostic, got %d", len(cycles))}
	}
	path := cyclePath
	if len(path) < 2 || !strings.EqualFold(path[0], path[len(path)-1]) {
		return &Violation{Oracle: "cycle-real", Class: "cycle-not-closed", Message: "printed cycle does not return to its start: " + cycles[0].Msg}
	}
	// the direction the path is printed in is wording: every step must be an edge, all in one direction
	fwd, bwd := true, true
	for i := 0; i+1 < len(path); i++ {
		a, b := strings.ToLower(path[i]), strings.ToLower(path[i+1])
		fwd = fwd && m.edgeSet[[2]string{a, b}]
		bwd = bwd && m.edgeSet[[2]string{b, a}]
	}
	if !fwd && bwd {
		for i, j := 0, len(path)-1; i < j; i, j = i+1, j-1 {
			path[i], path[j] = path[j], path[i]
		}
	}
	seen := map[string]bool{}
	for i := 0; i+1 < len(path); i++ {
		a, b := strings.ToLower(path[i]), strings.ToLower(path[i+1])
		if !m.edgeSet[[2]string{a, b}] {
			return &Violation{Oracle: "cycle-real", Class: "cycle-fake-edge",
				Message: fmt.Sprintf("printed cycle uses %q -> %q, which is not an edge of the graph: %s", a, b, cycles[0].Msg)}
		}
		if seen[a] {
			return &Violation{Oracle: "cycle-real", Class: "cycle-repeats-node", Message: "printed cycle visits a node twice: " + cycles[0].Msg}
		}
		seen[a] = true
	}
	return nil
}

func parseCyclePath(s string) ([]string, error) {
	parts := strings.Split(s, " -> ")
	out := make([]string, 0, len(parts))
	for _, p := range parts {
		u, err := strconv.Unquote(p)
		if err != nil {
			return nil, fmt.Errorf("element %q: %v", p, err)
		}
		out = append(out, u)
	}
	return out, nil
}

var _ = sort.Strings
