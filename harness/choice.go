// Package harness contains the per-property workloads, oracles and reference
// models, the choice sources, the minimiser and the worker protocol of dsim.
package harness

import (
	"verifsim/sim/kern"
)

// Chooser is the single source of every decision of one evaluation: world
// generation, map-order modes, scheduling, latencies and faults. It records
// what it answered so that the evaluation can be replayed and minimised.
type Chooser struct {
	rng    uint64
	replay map[string][]int // per class, nil when generating
	pos    map[string]int
	sched  map[string]int // replay: scheduling decisions keyed by their label (scheduling point)
	Log    []kern.Choice
	// strategy knobs of the random mode (drawn from rng, not recorded: they
	// only shape the distribution of recorded values)
	switchPermille int
	mapPermille    int
	strategy       int // 0 random walk, 1 newest task first, 2 starve one task, 3 let simulated time pass eagerly
	victim         int
	quiet          map[string]bool // classes answered 0 without drawing
}

// NewRandom returns a generating chooser.
func NewRandom(seed uint64) *Chooser {
	c := &Chooser{rng: seed ^ 0x6a09e667f3bcc909}
	c.next()
	c.next()
	// swarm: scheduling strategy
	switch c.next() % 5 {
	case 0:
		c.switchPermille = 1000 // uniform random walk
	case 1:
		c.switchPermille = 20 // nearly non-preemptive
	case 2:
		c.switchPermille = 100
	case 3:
		c.switchPermille = 300
	case 4:
		c.switchPermille = 600
	}
	// swarm: shape of the walk
	c.strategy = int(c.next() % 6) // 0,1,2 random walk; 3 newest first; 4 starve one task; 5 eager time
	c.victim = 2 + int(c.next()%5)
	// swarm: how many map-range sites leave identity order
	c.mapPermille = []int{0, 30, 125, 500, 1000, 1000}[c.next()%6]
	return c
}

// NewReplay returns a chooser that replays a recorded vector. Values are
// consumed per class in order; a class that runs out answers 0.
func NewReplay(v []kern.Choice) *Chooser {
	c := &Chooser{replay: map[string][]int{}, pos: map[string]int{}, sched: map[string]int{}}
	for _, ch := range v {
		cl := kern.Class(ch.L)
		if cl == "sched" {
			// scheduling decisions name their scheduling point: removing one leaves the others in place
			if ch.V != 0 {
				c.sched[ch.L] = ch.V
			}
			continue
		}
		c.replay[cl] = append(c.replay[cl], ch.V)
	}
	return c
}

// Quiet makes the given classes answer 0 from now on (canonical behaviour).
func (c *Chooser) Quiet(classes ...string) {
	if c.quiet == nil {
		c.quiet = map[string]bool{}
	}
	for _, cl := range classes {
		c.quiet[cl] = true
	}
}

// Unquiet re-enables the given classes.
func (c *Chooser) Unquiet(classes ...string) {
	for _, cl := range classes {
		delete(c.quiet, cl)
	}
}

func (c *Chooser) next() uint64 {
	c.rng += 0x9e3779b97f4a7c15
	z := c.rng
	z = (z ^ (z >> 30)) * 0xbf58476d1ce4e5b9
	z = (z ^ (z >> 27)) * 0x94d049bb133111eb
	return z ^ (z >> 31)
}

// Choose implements kern.Source.
func (c *Chooser) Choose(label string, n int) int {
	if n <= 1 {
		return 0
	}
	cl := kern.Class(label)
	if c.quiet[cl] {
		return 0
	}
	v := 0
	if c.replay != nil && cl == "sched" {
		v = c.sched[label]
		if v < 0 || v >= n {
			v = 0
		}
		if v != 0 || len(c.Log) < 1<<20 {
			c.Log = append(c.Log, kern.Choice{L: label, N: n, V: v})
		}
		return v
	}
	if c.replay != nil {
		s := c.replay[cl]
		p := c.pos[cl]
		if p < len(s) {
			v = s[p]
			if v < 0 {
				v = 0
			}
			v %= n
		}
		c.pos[cl] = p + 1
	} else if cl == "sched" {
		// a task id (run it if runnable, else default) or n-1 (let simulated time pass)
		if int(c.next()%1000) < c.switchPermille {
			v = int(c.next() % uint64(n))
		}
	} else if cl == "maporder" {
		if int(c.next()%1000) < c.mapPermille {
			v = 1 + int(c.next()%uint64(n-1))
		}
	} else {
		v = int(c.next() % uint64(n))
	}
	c.Log = append(c.Log, kern.Choice{L: label, N: n, V: v})
	return v
}

// ChooseFrom implements kern.ChooserFrom: when generating, a scheduling
// decision is drawn among the values that mean something at this point.
func (c *Chooser) ChooseFrom(label string, n int, valid []int) int {
	if c.replay != nil || c.quiet[kern.Class(label)] || len(valid) < 2 {
		return c.Choose(label, n)
	}
	v := 0
	if int(c.next()%1000) < c.switchPermille {
		v = valid[int(c.next()%uint64(len(valid)))]
		switch c.strategy {
		case 3: // newest task first: the runnable task with the highest id
			best := 0
			for _, x := range valid {
				if x < n-1 && x > best {
					best = x
				}
			}
			if best > 0 && c.next()%4 != 0 {
				v = best
			}
		case 4: // starve one task: never choose it while something else can run
			if v == c.victim {
				v = 0
			}
		case 5: // let simulated time pass as early as possible (tools finish while files are still being checked)
			if valid[len(valid)-1] == n-1 && c.next()%2 == 0 {
				v = n - 1
			}
		}
	}
	c.Log = append(c.Log, kern.Choice{L: label, N: n, V: v})
	return v
}

// Int returns a value in [0,n).
func (c *Chooser) Int(label string, n int) int { return c.Choose(label, n) }

// Bool returns true with probability 1/2 (0 = false).
func (c *Chooser) Bool(label string) bool { return c.Choose(label, 2) == 1 }

// Weighted returns true with probability about num/den; false is alternative 0.
func (c *Chooser) Weighted(label string, num, den int) bool { return c.Choose(label, den) >= den-num }

// Pick returns one of the alternatives.
func Pick[T any](c *Chooser, label string, xs []T) T { return xs[c.Choose(label, len(xs))] }

// Mark returns the current length of the log (for slicing out a sub-vector).
func (c *Chooser) Mark() int { return len(c.Log) }
