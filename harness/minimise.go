package harness

import (
	"time"

	"verifsim/sim/kern"
)

// Failure is a violating evaluation as found by a worker.
type Failure struct {
	Prop    string        `json:"property"`
	Seed    uint64        `json:"seed"`
	Eval    int           `json:"eval"`
	Variant string        `json:"variant,omitempty"`
	Choices []kern.Choice `json:"choices"`
	V       Violation     `json:"violation"`
}

// sameClass reports whether evaluating the vector reproduces the violation class.
func sameClass(s Scenario, env *Env, v []kern.Choice, want *Violation) (*Outcome, bool) {
	c := NewReplay(v)
	o := s.Eval(c, env)
	o.Recorded = c.Log
	return o, o.V != nil && o.V.Oracle == want.Oracle && o.V.Class == want.Class
}

// Minimise shrinks a failing choice vector while the same violation class
// persists: drop faults, reset latencies, reset map orders (all, then one by
// one), reset preemptions in ddmin chunks, then shrink the world choices.
// It returns the minimised vector as re-recorded by the final evaluation.
func Minimise(s Scenario, env *Env, f *Failure, budget time.Duration) ([]kern.Choice, *Outcome, int) {
	deadline := time.Now().Add(budget)
	tests := 0
	cur := append([]kern.Choice(nil), f.Choices...)
	o, ok := sameClass(s, env, cur, &f.V)
	tests++
	if !ok {
		return nil, o, tests
	}
	cur = o.reRecorded(cur)
	try := func(cand []kern.Choice) bool {
		if time.Now().After(deadline) {
			return false
		}
		tests++
		o2, ok := sameClass(s, env, cand, &f.V)
		if ok {
			cur = o2.reRecorded(cand)
			o = o2
		}
		return ok
	}
	zeroClass := func(v []kern.Choice, cl string) ([]kern.Choice, bool) {
		out := append([]kern.Choice(nil), v...)
		changed := false
		for i := range out {
			if kern.Class(out[i].L) == cl && out[i].V != 0 {
				out[i].V = 0
				changed = true
			}
		}
		return out, changed
	}
	idxOf := func(v []kern.Choice, cl string, nonzero bool) []int {
		var ix []int
		for i := range v {
			if kern.Class(v[i].L) == cl && (!nonzero || v[i].V != 0) {
				ix = append(ix, i)
			}
		}
		return ix
	}
	// zeroing in ddmin chunks
	zeroChunks := func(cl string) {
		ix := idxOf(cur, cl, true)
		n := len(ix)
		for size := n; size >= 1 && n > 0; size /= 2 {
			for start := 0; start < len(ix); {
				end := start + size
				if end > len(ix) {
					end = len(ix)
				}
				cand := append([]kern.Choice(nil), cur...)
				for _, i := range ix[start:end] {
					if i < len(cand) {
						cand[i].V = 0
					}
				}
				if try(cand) {
					ix = idxOf(cur, cl, true)
					if size > len(ix) {
						break
					}
				} else {
					start = end
				}
				if time.Now().After(deadline) {
					return
				}
			}
			if size == 1 {
				break
			}
		}
	}
	for _, cl := range []string{"fault", "lat", "sched", "maporder"} {
		if cand, ch := zeroClass(cur, cl); ch {
			if !try(cand) {
				zeroChunks(cl)
			}
		}
	}
	// world: lower values left to right (0 is the simplest alternative of every
	// world choice), then delete chunks of choices; repeat while it helps
	for pass := 0; pass < 6 && !time.Now().After(deadline); pass++ {
		progress := false
		for i := 0; i < len(cur); i++ {
			if kern.Class(cur[i].L) != "world" || cur[i].V == 0 {
				continue
			}
			for _, nv := range []int{0, cur[i].V / 2, cur[i].V - 1} {
				if i >= len(cur) || nv >= cur[i].V || nv < 0 {
					continue
				}
				cand := append([]kern.Choice(nil), cur...)
				cand[i].V = nv
				if try(cand) {
					progress = true
					break
				}
			}
			if time.Now().After(deadline) {
				break
			}
		}
		ix := idxOf(cur, "world", false)
		for size := len(ix) / 2; size >= 1; size /= 2 {
			for start := 0; start+size <= len(ix); {
				drop := map[int]bool{}
				nonzero := false
				for _, i := range ix[start : start+size] {
					drop[i] = true
					if cur[i].V != 0 {
						nonzero = true
					}
				}
				if !nonzero {
					start += size
					continue
				}
				var cand []kern.Choice
				for i, ch := range cur {
					if !drop[i] {
						cand = append(cand, ch)
					}
				}
				if try(cand) {
					progress = true
					ix = idxOf(cur, "world", false)
				} else {
					start += size
				}
				if time.Now().After(deadline) {
					break
				}
			}
		}
		if !progress {
			break
		}
	}
	// settle the other classes once more on the smaller world
	for _, cl := range []string{"sched", "maporder", "lat"} {
		if cand, ch := zeroClass(cur, cl); ch {
			if !try(cand) {
				zeroChunks(cl)
			}
		}
	}
	return cur, o, tests
}

// reRecorded returns the vector as recorded by the evaluation that just ran
// (labels and arities brought up to date, unused trailing values dropped).
func (o *Outcome) reRecorded(fallback []kern.Choice) []kern.Choice {
	if o.Recorded != nil {
		return o.Recorded
	}
	return fallback
}
