package harness

import (
	"encoding/json"
	"fmt"
	"sort"
	"strings"

	"gopkg.in/yaml.v3"
)

// C09, flow-style variant: the jobs of the composed workflow are written as one
// flow mapping on ONE line (`jobs: {a: {...}, b: {...}}` - legal YAML, and what
// generators that emit JSON produce). All job keys share a line, so everything
// that orders jobs by line alone falls back to map order. A diagnostic is
// attributed to a job by the column span of the job's text; the same text is
// linted alone (with the jobs of its group), so columns relative to the start of
// the job are comparable.

type flowJob struct {
	id    string
	text  string // `id: {...}` on one line
	group int
}

// flowText renders a block-style job (`  id:\n    body`) as `id: <json>`.
func flowText(block string) (string, bool) {
	var m map[string]any
	if yaml.Unmarshal([]byte(block), &m) != nil || len(m) != 1 {
		return "", false
	}
	for id, body := range m {
		if _, ok := body.(map[string]any); !ok {
			return "", false
		}
		b, err := json.Marshal(body)
		if err != nil {
			return "", false
		}
		return id + ": " + string(b), true
	}
	return "", false
}

type flowDiag struct {
	Col  int // relative to the first column of the job's text
	Kind string
	Msg  string
}

func flowCompose(header string, jobs []flowJob) (text string, line int, spans [][2]int) {
	var b strings.Builder
	b.WriteString(strings.TrimSuffix(header, "jobs:\n"))
	line = strings.Count(b.String(), "\n") + 1
	b.WriteString("jobs: {")
	col := len("jobs: {") + 1
	for i, j := range jobs {
		if i > 0 {
			b.WriteString(", ")
			col += 2
		}
		spans = append(spans, [2]int{col, col + len(j.text)})
		b.WriteString(j.text)
		col += len(j.text)
	}
	b.WriteString("}\n")
	return b.String(), line, spans
}

func flowAttribute(errs []ErrRec, line int, spans [][2]int, defects map[string]int) [][]flowDiag {
	per := make([][]flowDiag, len(spans))
	for _, e := range errs {
		if e.Kind == "job-needs" && strings.HasPrefix(e.Msg, "cyclic dependencies in") {
			continue
		}
		if reCalleeDefect.MatchString(e.Msg) {
			defects[e.Msg]++
			continue
		}
		if e.Line != line || rePosInMsg.MatchString(e.Msg) {
			continue
		}
		for i, s := range spans {
			if e.Col >= s[0] && e.Col < s[1] {
				per[i] = append(per[i], flowDiag{e.Col - s[0], e.Kind, e.Msg})
				break
			}
		}
	}
	for i := range per {
		ds := per[i]
		sort.Slice(ds, func(a, b int) bool {
			if ds[a].Col != ds[b].Col {
				return ds[a].Col < ds[b].Col
			}
			if ds[a].Kind != ds[b].Kind {
				return ds[a].Kind < ds[b].Kind
			}
			return ds[a].Msg < ds[b].Msg
		})
	}
	return per
}

func flowString(ds []flowDiag) string {
	var b strings.Builder
	for _, d := range ds {
		fmt.Fprintf(&b, "    +col %d: %s [%s]\n", d.Col, d.Msg, d.Kind)
	}
	return b.String()
}

// c09Flow is one evaluation of the flow-style variant. ok=false: the drawn groups cannot be
// rendered in flow style (the caller falls back to the block-style composition).
func c09Flow(c *Chooser, env *Env, o *Outcome, header string, groups []*c09Group, cfg string) (ok bool) {
	if !strings.HasSuffix(header, "jobs:\n") || strings.Contains(header, "jobs.") {
		return false
	}
	var jobs []flowJob
	var assetNames []string
	seen := map[string]bool{}
	for gi, g := range groups {
		for _, b := range g.blocks {
			t, ok := flowText(b.text)
			if !ok {
				return false
			}
			jobs = append(jobs, flowJob{id: b.id, text: t, group: gi})
		}
		for _, a := range g.assets {
			if !seen[a] {
				seen[a] = true
				assetNames = append(assetNames, a)
			}
		}
	}
	sort.Strings(assetNames)
	for i := len(jobs) - 1; i > 0; i-- {
		j := i - c.Int("world.order", i+1)
		jobs[i], jobs[j] = jobs[j], jobs[i]
	}
	text, line, spans := flowCompose(header, jobs)
	w := c09World(c09Disk(assetNames, text, cfg))
	w.Note = "C09 composed workflow, all jobs in one flow mapping on one line"
	o.World = w
	res := RunLint(w, c, RunOpts{KeepTrace: env.KeepTrace})
	o.addRun(res.K)
	if env.KeepTrace {
		o.Traces = append(o.Traces, res.K.Trace)
	}
	o.Nontrivial = len(jobs) >= 2 && res.SitesMulti > 0
	o.Sig = w.Hash() ^ res.ModeSig
	o.Sample = map[string]any{"jobs": len(jobs), "diagnostics": len(res.Errs), "workflow": text, "flow_style": true}
	o.Digest = DigestOf(res.Errs, res.Fatal != "")
	o.probe("flow_style_compositions", 1)
	if v := runFailure("C09", res.K); v != nil {
		o.V = v
		return true
	}
	if res.Fatal != "" || (len(res.Errs) == 1 && strings.Contains(res.Errs[0].Msg, "could not parse as YAML")) {
		o.probe("composed_fatal", 1)
		return true
	}
	gotDef, wantDef := map[string]int{}, map[string]int{}
	got := flowAttribute(res.Errs, line, spans, gotDef)
	comparable := true
	for gi, g := range groups {
		var mine []flowJob
		var idx []int
		for i, j := range jobs {
			if j.group == gi {
				mine = append(mine, j)
				idx = append(idx, i)
			}
		}
		atext, aline, aspans := flowCompose(header, mine)
		aw := c09World(c09Disk(g.assets, atext, cfg))
		aw.Opts.Verbose, aw.Opts.Debug = false, false
		ares := RunLint(aw, nil, RunOpts{Canonical: true})
		o.addRun(ares.K)
		if v := runFailure("C09", ares.K); v != nil {
			v.Message = "while linting group " + g.name + " alone (flow style): " + v.Message
			o.V = v
			return true
		}
		if ares.Fatal != "" {
			comparable = false
			continue
		}
		mineDef := map[string]int{}
		want := flowAttribute(ares.Errs, aline, aspans, mineDef)
		for m, n := range mineDef {
			if n > wantDef[m] {
				wantDef[m] = n
			}
		}
		for k, bi := range idx {
			a, b := got[bi], want[k]
			same := len(a) == len(b)
			for i := 0; same && i < len(a); i++ {
				same = a[i] == b[i]
			}
			if !same {
				o.V = &Violation{Oracle: "job-independence", Class: "flow-job-diff",
					Message: fmt.Sprintf("job %q (group %s), written with the other jobs in one flow mapping on one line, gets different diagnostics than when linted with only its header and needed jobs.\n  alone:\n%s  composed (with %d other jobs, columns relative to the job):\n%s", jobs[bi].id, g.name, flowString(b), len(jobs)-len(mine), flowString(a)),
					Detail:  map[string]any{"composed_workflow": text}}
				return true
			}
		}
	}
	if comparable {
		for _, m := range sortedKeys(wantDef) {
			if gotDef[m] != wantDef[m] {
				o.V = &Violation{Oracle: "callee-defect-once", Class: "callee-defect-count",
					Message: fmt.Sprintf("a defect of a local callee is reported %d time(s) in the composed flow-style workflow but %d time(s) when the jobs using it are linted alone: %s", gotDef[m], wantDef[m], m),
					Detail:  map[string]any{"composed_workflow": text}}
				return true
			}
		}
	}
	return true
}
