package harness

import (
	"bytes"
	"encoding/json"
	"fmt"
	"hash/fnv"
	"path"
	"regexp"
	"strings"
	"syscall"

	"verifsim/sim/kern"
)

// Simulated shellcheck and pyflakes. Outcomes are a pure function of the
// invocation (tool, stdin) and of the world's per-invocation fault plan, so
// they do not depend on the schedule; latency is drawn by the kernel.
//
// Issues are derived from markers in the script text:
//
//	SC<4 digits>   shellcheck prints one issue with that code at the marker's line/column in stdin
//	               (SC1xxx: at line 1, column 1 of stdin - a problem of the script as a whole)
//	PF<2 digits>   pyflakes prints "<stdin>:L:C: marker PFnn"
//	PFSYN          pyflakes prints a multi-line syntax error (one issue)
//	PFCRLF         pyflakes terminates that line with \r\n

// ToolFault is the behaviour injected into one invocation.
type ToolFault string

const (
	TFNone         ToolFault = ""
	TFCannotStart  ToolFault = "cannot-start"      // exec fails (ENOENT / EACCES / EAGAIN)
	TFKilled       ToolFault = "killed"            // terminated by a signal, no output
	TFKilledOutput ToolFault = "killed-partial"    // terminated by a signal after writing part of its output
	TFNonzeroEmpty ToolFault = "nonzero-empty"     // exits 1 without output
	TFGarbage      ToolFault = "garbage"           // shellcheck only: prints something that is not JSON
	TFEpipe        ToolFault = "epipe"             // exits before reading stdin: status 1, no output
	TFEmptyOK      ToolFault = "empty-exit-0"      // shellcheck only: exits 0 and prints nothing at all (not JSON)
	TFJSONGarbage  ToolFault = "json-then-garbage" // shellcheck only: a valid JSON array followed by a crash message
	TFNullElement  ToolFault = "null-element"      // shellcheck only: valid JSON with a null element: [null]
	TFNoNewline    ToolFault = "no-final-newline"  // pyflakes only: the output is cut off in the middle of the last line
	TFExit137      ToolFault = "exit-137-empty"    // exits with a status above 127 (a wrapper reporting a signal) without output
	TFFlood        ToolFault = "floods-output"     // writes 5 MiB of text that is no report (far more than a pipe holds) and exits 1
	TFBusyOnce     ToolFault = "busy-once"         // the first start attempt fails with ETXTBSY (the executable is being written); a second attempt works
)

// floodOutput is what a tool that went wild prints: 5 MiB of lines that are no report.
var floodOutput = bytes.Repeat([]byte("tool: internal error: the same line over and over again ............\n"), 5*1024*1024/70)

// ToolIssue is one issue a simulated tool prints.
type ToolIssue struct {
	Tool string `json:"tool"`
	Code string `json:"code"` // SC2086, PF01, PFSYN
	Line int    `json:"line"` // in stdin, 1-based
	Col  int    `json:"col"`
}

var reMarker = regexp.MustCompile(`SC[0-9]{4}|PF[0-9]{2}|PFSYN|PFCRLF`)

// ScanIssues lists the issues a tool derives from its stdin.
func ScanIssues(tool, stdin string) []ToolIssue {
	var out []ToolIssue
	for li, line := range strings.Split(stdin, "\n") {
		for _, loc := range reMarker.FindAllStringIndex(line, -1) {
			m := line[loc[0]:loc[1]]
			if (tool == "shellcheck") != strings.HasPrefix(m, "SC") {
				continue
			}
			is := ToolIssue{Tool: tool, Code: m, Line: li + 1, Col: loc[0] + 1}
			if strings.HasPrefix(m, "SC1") {
				is.Line, is.Col = 1, 1 // see Run: SC1xxx is reported at the start of the input
			}
			out = append(out, is)
			if m == "SC2999" {
				out = append(out, is) // printed twice (the entries differ in fields actionlint does not read)
			}
		}
	}
	return out
}

// Tools implements kern.ToolModel.
type Tools struct {
	Broken  map[string]ToolFault // tool -> every invocation of it fails this way (a broken installation)
	Missing map[string]bool      // tools LookPath does not find
	Faults  map[string]ToolFault // invocation key -> fault
	Errno   map[string]int64     // invocation key -> errno for cannot-start
	// EarlyExit: that tool does not wait for the end of its input (it answers from what is in the pipe
	// when it starts). Code that hands over the whole script with the start cannot tell the difference.
	EarlyExit map[string]bool
	// BusyOnce: the first start of that tool in the run fails with ETXTBSY, later starts work
	BusyOnce map[string]bool
	busySeen bool
	// FloodOnce: the first invocation of that tool in the run floods its output (TFFlood), the others
	// behave (one flood is enough to meet a reader that stops reading; 5 MiB per invocation is dear)
	FloodOnce map[string]bool
	floodSeen map[string]bool
	// gone: the copies of the tools in /usr/bin have been removed; other copies, in /usr/local/bin,
	// are found through PATH instead (set by RunLint from RunOpts.ToolMoves)
	gone bool
}

// InvKey identifies an invocation independently of the schedule.
func InvKey(tool, stdin string) string {
	h := fnv.New64a()
	h.Write([]byte(stdin))
	return fmt.Sprintf("%s:%x", tool, h.Sum64())
}

// shellArg returns the value of shellcheck's --shell argument ("" when absent).
func shellArg(argv []string) string {
	for i := 0; i+1 < len(argv); i++ {
		if argv[i] == "--shell" {
			return argv[i+1]
		}
	}
	return ""
}

func toolOf(argv []string) string {
	if len(argv) == 0 {
		return ""
	}
	return path.Base(argv[0])
}

func (t *Tools) LookPath(name string) (string, bool) {
	b := path.Base(name)
	if (b != "shellcheck" && b != "pyflakes") || t.Missing[b] {
		return "", false
	}
	if strings.Contains(name, "/") {
		// a path (absolute, or relative to the working directory) is used as it is, like exec.LookPath does
		if t.gone && name == "/usr/bin/"+b {
			return "", false
		}
		return name, true
	}
	if t.gone {
		return "/usr/local/bin/" + b, true
	}
	return "/usr/bin/" + b, true
}

func (t *Tools) fault(tool, stdin string) ToolFault {
	if f, ok := t.Broken[tool]; ok {
		return f
	}
	return t.Faults[InvKey(tool, stdin)]
}

func (t *Tools) CanStart(argv []string, stdin string) int64 {
	k := InvKey(toolOf(argv), stdin)
	if t.gone && len(argv) > 0 && argv[0] == "/usr/bin/"+toolOf(argv) {
		return int64(syscall.ENOENT)
	}
	if t.BusyOnce[toolOf(argv)] && !t.busySeen {
		// whatever is started first for this tool finds its executable busy, once
		t.busySeen = true
		return int64(syscall.ETXTBSY)
	}
	if t.fault(toolOf(argv), stdin) == TFCannotStart {
		if e := t.Errno[k]; e != 0 {
			return e
		}
		return int64(syscall.ENOENT)
	}
	return 0
}

// ExitsEarly implements the optional kernel hook.
func (t *Tools) ExitsEarly(argv []string) bool { return t.EarlyExit[toolOf(argv)] }

func (t *Tools) Run(argv []string, stdin string) kern.ToolResult {
	tool := toolOf(argv)
	issues := ScanIssues(tool, stdin)
	var stdout []byte
	code := 0
	switch tool {
	case "shellcheck":
		type js struct {
			File      string `json:"file"`
			Line      int    `json:"line"`
			EndLine   int    `json:"endLine"`
			Column    int    `json:"column"`
			EndColumn int    `json:"endColumn"`
			Level     string `json:"level"`
			Code      int    `json:"code"`
			Message   string `json:"message"`
		}
		arr := []any{}
		for _, is := range issues {
			var n int
			fmt.Sscanf(is.Code, "SC%d", &n)
			if n >= 1000 && n < 2000 {
				// SC1xxx: problems of the script as a whole, located at the very start of the input
				is.Line, is.Col = 1, 1
			}
			if is.Code == "SC2998" {
				// a sparse object (another tool version, a wrapper): legal JSON that leaves out the
				// members column, endColumn and level - readers see their zero values
				arr = append(arr, map[string]any{"file": "-", "line": is.Line, "endLine": is.Line, "code": n, "message": "marker issue " + is.Code + " checked as " + shellArg(argv) + "."})
				continue
			}
			arr = append(arr, js{"-", is.Line, is.Line, is.Col, is.Col + 6, "warning", n, "marker issue " + is.Code + " checked as " + shellArg(argv) + "."})
		}
		stdout, _ = json.Marshal(arr)
		stdout = append(stdout, '\n')
		if len(arr) > 0 {
			code = 1
		}
	case "pyflakes":
		var b strings.Builder
		for _, is := range issues {
			switch is.Code {
			case "PFSYN":
				fmt.Fprintf(&b, "<stdin>:%d:%d: unexpected EOF while parsing PFSYN\nprint(\n      ^\n", is.Line, is.Col)
			case "PFCRLF":
				fmt.Fprintf(&b, "<stdin>:%d:%d: marker PFCRLF\r\n", is.Line, is.Col)
			default:
				fmt.Fprintf(&b, "<stdin>:%d:%d: marker %s\n", is.Line, is.Col, is.Code)
			}
		}
		stdout = []byte(b.String())
		if strings.Contains(stdin, "LONGNOISE") {
			// a warning of the interpreter in front of the report: one line of 5000 bytes
			stdout = append([]byte("DeprecationWarning: "+strings.Repeat("the imp module is deprecated ", 172)+"\n"), stdout...)
		}
		if strings.Contains(stdin, "PROGRESSNOISE") {
			stdout = append([]byte("pyflakes-wrapper: checking 1 file\r"), stdout...)
		}
		if len(issues) > 0 {
			code = 1
		}
	}
	if t.FloodOnce[tool] && !t.floodSeen[tool] {
		if t.floodSeen == nil {
			t.floodSeen = map[string]bool{}
		}
		t.floodSeen[tool] = true
		return kern.ToolResult{ExitCode: 1, Stdout: floodOutput}
	}
	switch t.fault(tool, stdin) {
	case TFCannotStart:
		// reached only when the script was not in the pipe yet when the process was started (code that
		// feeds stdin after the start): the invocation could not be recognised then. It fails all the
		// same - killed before it wrote anything - so "a failing tool is fatal" stays decidable.
		return kern.ToolResult{Signaled: true}
	case TFKilled:
		// a process killed by a signal writes nothing itself (the "Killed" line is the parent shell's)
		return kern.ToolResult{Signaled: true}
	case TFKilledOutput:
		// part of the regular output was written before the signal arrived
		cut := len(stdout) / 2
		if cut == 0 {
			cut = len(stdout)
		}
		return kern.ToolResult{Signaled: true, Stdout: stdout[:cut]}
	case TFExit137:
		return kern.ToolResult{ExitCode: 137}
	case TFFlood:
		return kern.ToolResult{ExitCode: 1, Stdout: floodOutput}
	case TFNonzeroEmpty, TFEpipe:
		// "exits non-zero without output": nothing on stdout and nothing on stderr
		return kern.ToolResult{ExitCode: 1}
	case TFEmptyOK:
		return kern.ToolResult{ExitCode: 0}
	case TFJSONGarbage:
		return kern.ToolResult{ExitCode: code, Stdout: append(append([]byte{}, stdout...), []byte("shellcheck: internal error: <<loop>>\n")...)}
	case TFNullElement:
		return kern.ToolResult{ExitCode: 1, Stdout: []byte("[null]\n")}
	case TFNoNewline:
		out := []byte("<stdin>:1:1: 'os' imported but unus")
		return kern.ToolResult{ExitCode: 1, Stdout: out}
	case TFGarbage:
		return kern.ToolResult{ExitCode: code, Stdout: []byte("shellcheck: internal error <<not json>>\n")}
	}
	return kern.ToolResult{Stdout: stdout, ExitCode: code}
}
