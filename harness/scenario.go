package harness

import (
	"fmt"
	"sort"
	"strings"

	"verifsim/sim/kern"
)

// Violation is a property violation found by one evaluation.
type Violation struct {
	Oracle  string `json:"oracle"`  // which oracle of the property failed
	Class   string `json:"class"`   // stable class key: minimisation preserves it, known findings match on it
	Message string `json:"message"` // human-readable one-paragraph description
	Detail  any    `json:"detail,omitempty"`
}

// Outcome is the result of one evaluation.
type Outcome struct {
	V          *Violation
	Nontrivial bool   // by the property's stated rule
	Sig        uint64 // distinctness signature of the evaluation
	Runs       int    // simulated runs executed
	Steps      int    // kernel steps
	SimTimeNs  int64
	Faults     map[string]int
	Probes     map[string]int
	Sample     any // summary for the evidence file (only kept for a few evaluations)
	World      *World
	Traces     [][]string
	Recorded   []kern.Choice // the choices this evaluation consumed
	// Digest covers everything the code under test produced in this evaluation (0 = not provided).
	// It must not depend on the process's history: the driver compares it between a warm worker
	// and a fresh process evaluating the same index.
	Digest uint64
	// Cover names the elements of a finite, stated input universe this evaluation covered
	// ("<universe>:<element>"); the driver reports how much of each universe a run reached.
	Cover []string
}

// DigestOf hashes diagnostics and other outputs.
func DigestOf(parts ...any) uint64 {
	h := uint64(1469598103934665603)
	for _, p := range parts {
		s := fmt.Sprintf("%v|", p)
		for i := 0; i < len(s); i++ {
			h = (h ^ uint64(s[i])) * 1099511628211
		}
	}
	if h == 0 {
		h = 1
	}
	return h
}

func (o *Outcome) addRun(k *kern.Result) {
	o.Runs++
	o.Steps += k.Steps
	o.SimTimeNs += int64(k.SimTime)
	for f, n := range k.FaultsFired {
		if o.Faults == nil {
			o.Faults = map[string]int{}
		}
		o.Faults[f] += n
	}
	for p, n := range k.Probes {
		o.probe(p, n)
	}
	if k.MaxRunnable >= 2 {
		o.probe("runs_with_2plus_runnable", 1)
	}
}

func (o *Outcome) probe(name string, n int) {
	if o.Probes == nil {
		o.Probes = map[string]int{}
	}
	o.Probes[name] += n
}

// Env carries per-evaluation settings from the worker.
type Env struct {
	Tier      string // quick | thorough
	KeepTrace bool   // replay: keep full traces
	Variant   string // scenario-specific sub-configuration
}

// Scenario is the workload + oracle of one property.
type Scenario interface {
	ID() string
	// Eval performs one evaluation; every decision comes from c.
	Eval(c *Chooser, env *Env) *Outcome
}

var scenarios = map[string]Scenario{}

// Register adds a scenario.
func Register(s Scenario) { scenarios[s.ID()] = s }

// Lookup finds a scenario by property id.
func Lookup(id string) Scenario { return scenarios[id] }

// runFailure converts an abnormal end of a simulated run into a violation of
// the always-on invariants (no panic, no deadlock, bounded steps).
func runFailure(prop string, k *kern.Result) *Violation {
	switch {
	case k.Panic != nil:
		return &Violation{Oracle: "no-panic", Class: "panic:" + panicSite(k.Panic.Stack),
			Message: fmt.Sprintf("task t%d (%s) panicked: %s", k.Panic.Task, k.Panic.Name, k.Panic.Value), Detail: k.Panic.Stack}
	case k.Deadlock != "":
		return &Violation{Oracle: "no-deadlock", Class: "deadlock", Message: "deadlock: " + k.Deadlock}
	case k.Budget:
		return &Violation{Oracle: "bounded-steps", Class: "step-budget", Message: fmt.Sprintf("run exceeded the step budget (%d kernel steps)", k.Steps)}
	}
	return nil
}

// panicSite extracts the first actionlint frame of a panic stack ("file.go:func").
func panicSite(stack string) string {
	lines := strings.Split(stack, "\n")
	for i := 0; i+1 < len(lines); i++ {
		l := lines[i]
		if strings.HasPrefix(l, "github.com/rhysd/actionlint.") {
			fn := strings.TrimPrefix(l, "github.com/rhysd/actionlint.")
			if j := strings.IndexByte(fn, '('); j > 0 && !strings.HasPrefix(fn, "(") {
				fn = fn[:j]
			} else if j := strings.LastIndex(fn, "("); j > 0 {
				fn = fn[:j]
			}
			return fn
		}
	}
	return "unknown"
}

func sortedKeys[V any](m map[string]V) []string {
	ks := make([]string, 0, len(m))
	for k := range m {
		ks = append(ks, k)
	}
	sort.Strings(ks)
	return ks
}

// RaceFrames returns, for the access stacks of one race report, the innermost
// frame of the code under test of each (sorted); fewer than two entries when
// some access stack has no such frame.
func RaceFrames(rep string) []string {
	var out []string
	for _, sec := range strings.Split(rep, "\n\n") {
		t := strings.TrimSpace(sec)
		if strings.HasPrefix(t, "WARNING: DATA RACE") {
			t = strings.TrimSpace(strings.TrimPrefix(t, "WARNING: DATA RACE"))
		}
		if !(strings.HasPrefix(t, "Read at") || strings.HasPrefix(t, "Write at") || strings.HasPrefix(t, "Previous read at") || strings.HasPrefix(t, "Previous write at")) {
			continue
		}
		found := ""
		for _, l := range strings.Split(t, "\n") {
			l = strings.TrimSpace(l)
			if strings.HasPrefix(l, "github.com/rhysd/actionlint.") {
				found = strings.TrimPrefix(l, "github.com/rhysd/actionlint.")
				if i := strings.LastIndex(found, "("); i > 0 {
					found = found[:i]
				}
				break
			}
		}
		if found == "" {
			return nil
		}
		out = append(out, found)
	}
	sort.Strings(out)
	return out
}
