package harness

import (
	"fmt"
	"hash/fnv"
	"regexp"
	"sort"
	"strconv"
	"strings"

	"gopkg.in/yaml.v3"

	"verifsim/sim/kern"
)

// C09 - jobs, steps and expressions are checked independently.
//
// System view: the rule pipeline consumes a sequence of visit events; the
// history before job j's events is (i) which other jobs exist and (ii) the
// order Visitor.Visit draws them from the Jobs map. The simulator owns (ii)
// (map-order control at every instrumented site); the workload composes (i)
// from independently chosen job groups. Reference model: the group linted
// alone (same header, the jobs it needs, itself) on a canonical run.

type c09 struct{}

func init() { Register(c09{}) }

func (c09) ID() string { return "C09" }

type c09Block struct {
	group int
	id    string
	text  string
	lines int
}

type c09Group struct {
	name   string
	blocks []c09Block
	assets []string
}

var rePosInMsg = regexp.MustCompile(`line:(\d+),col:(\d+)`)

// relDiag is a diagnostic relative to the first line of its job block.
type relDiag struct {
	Line int
	Col  int
	Kind string
	Msg  string
}

func (d relDiag) String() string { return fmt.Sprintf("+%d:%d: %s [%s]", d.Line, d.Col, d.Msg, d.Kind) }

// relativise maps diagnostics to blocks. Positions echoed in messages are
// shifted by the same offset as the diagnostic itself.
func relativise(errs []ErrRec, starts []int, lens []int) (perBlock [][]relDiag, header []relDiag) {
	perBlock = make([][]relDiag, len(starts))
	for _, e := range errs {
		// exactly one cyclic-dependency diagnostic per workflow is specified behaviour (C18):
		// it is a property of the whole needs graph, not of one job
		if e.Kind == "job-needs" && strings.HasPrefix(e.Msg, "cyclic dependencies in") {
			continue
		}
		bi := -1
		for i := range starts {
			if e.Line >= starts[i] && e.Line < starts[i]+lens[i] {
				bi = i
				break
			}
		}
		off := 0
		if bi >= 0 {
			off = starts[bi] - 1
		}
		msg := rePosInMsg.ReplaceAllStringFunc(e.Msg, func(s string) string {
			m := rePosInMsg.FindStringSubmatch(s)
			l, _ := strconv.Atoi(m[1])
			// positions inside the same block are made relative; others are left as "abs"
			if bi >= 0 && l >= starts[bi] && l < starts[bi]+lens[bi] {
				return fmt.Sprintf("line:+%d,col:%s", l-off, m[2])
			}
			return "line:abs,col:" + m[2]
		})
		d := relDiag{Line: e.Line - off, Col: e.Col, Kind: e.Kind, Msg: msg}
		if bi >= 0 {
			perBlock[bi] = append(perBlock[bi], d)
		} else {
			header = append(header, d)
		}
	}
	for i := range perBlock {
		sortRel(perBlock[i])
	}
	sortRel(header)
	return
}

func sortRel(ds []relDiag) {
	sort.Slice(ds, func(i, j int) bool {
		a, b := ds[i], ds[j]
		if a.Line != b.Line {
			return a.Line < b.Line
		}
		if a.Col != b.Col {
			return a.Col < b.Col
		}
		if a.Kind != b.Kind {
			return a.Kind < b.Kind
		}
		return a.Msg < b.Msg
	})
}

func relEqual(a, b []relDiag) bool {
	if len(a) != len(b) {
		return false
	}
	for i := range a {
		if a[i] != b[i] {
			return false
		}
	}
	return true
}

func relString(ds []relDiag) string {
	var b strings.Builder
	for _, d := range ds {
		b.WriteString("    " + d.String() + "\n")
	}
	if len(ds) == 0 {
		b.WriteString("    (none)\n")
	}
	return b.String()
}

type aloneResult struct {
	perBlock [][]relDiag
	header   []relDiag
	fatal    string
	failed   *Violation
}

var aloneMemo = map[uint64]*aloneResult{}

// c09Configs are repository configurations shared by the composed and the solo runs.
var c09Configs = []string{
	"",
	"self-hosted-runner:\n  labels:\n    - linux-*\n    - gpu\nconfig-variables:\n  - FOO\n  - BAR\n",
	"self-hosted-runner:\n  labels: [bogus-*]\nconfig-variables: []\n",
	"self-hosted-runner:\n  labels: ['gpu-[', 'linux-*']\n",
}

func c09Disk(assetNames []string, wf string, cfg string) *kern.Disk {
	disk := kern.NewDisk()
	disk.MkdirAll("/w/r/.git")
	if cfg != "" {
		disk.Put("/w/r/.github/actionlint.yaml", []byte(cfg))
	}
	disk.Put("/w/r/.github/workflows/t.yml", []byte(wf))
	InstallAssets(func(p, c string) { disk.Put(p, []byte(c)) }, "/w/r", assetNames)
	return disk
}

// lintAlone lints header + the blocks of one group on the canonical run.
// c09Tools is set per evaluation: when true both the composed and the solo runs have the
// simulated shellcheck / pyflakes enabled (issues derive from markers in the scripts).
var c09Tools bool

var c09LogLevel int

func c09World(disk *kern.Disk) *World {
	w := &World{Disk: disk, Cwd: "/w/r", CPUs: 2, API: APIFile, Files: []string{".github/workflows/t.yml"}}
	w.Opts.Verbose, w.Opts.Debug = c09LogLevel == 1, c09LogLevel == 2
	if c09Tools {
		w.Tools = &Tools{}
		w.Opts.Shellcheck, w.Opts.Pyflakes = "shellcheck", "pyflakes"
	}
	return w
}

func lintAlone(o *Outcome, header string, blocks []c09Block, assetNames []string, cfg string) *aloneResult {
	var b strings.Builder
	b.WriteString(header)
	var starts, lens []int
	line := strings.Count(header, "\n") + 1
	for _, blk := range blocks {
		starts = append(starts, line)
		lens = append(lens, blk.lines)
		b.WriteString(blk.text)
		line += blk.lines
	}
	text := b.String()
	h := fnv.New64a()
	h.Write([]byte(text))
	h.Write([]byte(strings.Join(assetNames, ",")))
	h.Write([]byte(cfg))
	if c09Tools {
		h.Write([]byte("+tools"))
	}
	key := h.Sum64()
	if r, ok := aloneMemo[key]; ok {
		return r
	}
	w := c09World(c09Disk(assetNames, text, cfg))
	w.Opts.Verbose, w.Opts.Debug = false, false // the reference is always the quiet run
	res := RunLint(w, nil, RunOpts{Canonical: true})
	o.addRun(res.K)
	r := &aloneResult{fatal: res.Fatal, failed: runFailure("C09", res.K)}
	r.perBlock, r.header = relativise(res.Errs, starts, lens)
	if len(aloneMemo) > 40000 {
		aloneMemo = map[uint64]*aloneResult{}
	}
	aloneMemo[key] = r
	return r
}

// corpus-mined groups ----------------------------------------------------------

func corpusGroup(c *Chooser, cp *Corpus, taken map[string]bool, gi int) (*c09Group, string) {
	f := cp.Split[c.Int("world.cfile", len(cp.Split))]
	j := c.Int("world.cjob", len(f.Jobs))
	// closure under needs within the source file
	byID := map[string]int{}
	for i, jb := range f.Jobs {
		byID[strings.ToLower(jb.ID)] = i
	}
	want := map[int]bool{j: true}
	stack := []int{j}
	for len(stack) > 0 {
		x := stack[len(stack)-1]
		stack = stack[:len(stack)-1]
		for _, n := range f.Jobs[x].Needs {
			if i, ok := byID[strings.ToLower(n)]; ok && !want[i] {
				want[i] = true
				stack = append(stack, i)
			}
		}
	}
	g := &c09Group{name: fmt.Sprintf("%s#%s", f.Name, f.Jobs[j].ID)}
	var idx []int
	for i := range want {
		idx = append(idx, i)
	}
	sort.Ints(idx)
	for _, i := range idx {
		jb := f.Jobs[i]
		// local callees are out of scope here: their defects are reported once per run (C10)
		if strings.Contains(jb.Text, "uses: ./") || strings.Contains(jb.Text, "uses: './") || strings.Contains(jb.Text, `uses: "./`) {
			return nil, ""
		}
		id, text := jb.ID, jb.Text
		if taken[strings.ToLower(id)] {
			if len(idx) > 1 || len(jb.Needs) > 0 {
				return nil, ""
			}
			// a single job without needs can be renamed
			nid := fmt.Sprintf("g%d-%s", gi, id)
			text = "  " + nid + ":" + strings.TrimPrefix(text, "  "+id+":")
			id = nid
			if taken[strings.ToLower(id)] {
				return nil, ""
			}
		}
		g.blocks = append(g.blocks, c09Block{id: id, text: text, lines: jb.Lines})
	}
	for _, b := range g.blocks {
		taken[strings.ToLower(b.id)] = true
	}
	return g, f.Header
}

func fragGroup(c *Chooser, taken map[string]bool, gi int) *c09Group {
	f := frags[c.Int("world.frag", len(frags))]
	if c.Weighted("world.defectivecallee", 1, 8) {
		// a job that uses a local action / reusable workflow with a defect of its own: the defect is
		// reported once per run (C10's clause), everything else about the job stays independent
		f = defectiveFrags[c.Int("world.dfrag", len(defectiveFrags))]
	}
	prefix := fmt.Sprintf("g%d", gi)
	_, ids, blocks := f.Render(prefix)
	g := &c09Group{name: "frag:" + f.Name, assets: f.Assets}
	for i, id := range ids {
		if taken[strings.ToLower(id)] {
			return nil
		}
		g.blocks = append(g.blocks, c09Block{id: id, text: blocks[i], lines: strings.Count(blocks[i], "\n")})
	}
	for _, b := range g.blocks {
		taken[strings.ToLower(b.id)] = true
	}
	return g
}

func (c09) Eval(c *Chooser, env *Env) *Outcome {
	cp := LoadCorpus()
	o := &Outcome{}
	// header
	var header string
	if len(cp.Split) > 0 && c.Weighted("world.corpushdr", 1, 2) {
		header = cp.Split[c.Int("world.hfile", len(cp.Split))].Header
	} else {
		header = headers[c.Int("world.hdr", len(headers))] + "jobs:\n"
	}
	cfg := c09Configs[c.Int("world.config", len(c09Configs))]
	c09Tools = c.Weighted("world.tools", 1, 3)
	c09LogLevel = c.Int("world.loglevel", 8) // 1: verbose, 2: debug, else quiet (the same in the composed and the solo runs)
	ngroups := 2 + c.Int("world.ngroups", 5)
	taken := map[string]bool{}
	var groups []*c09Group
	for gi := 0; gi < ngroups; gi++ {
		var g *c09Group
		if len(cp.Split) > 0 && c.Weighted("world.corpusjob", 1, 2) {
			g, _ = corpusGroup(c, cp, taken, gi)
		} else {
			g = fragGroup(c, taken, gi)
		}
		if g != nil {
			groups = append(groups, g)
		}
	}
	if len(groups) == 0 {
		return o
	}
	if c.Weighted("world.flowstyle", 1, 6) && c09Flow(c, env, o, header, groups, cfg) {
		return o
	}
	// composed order: a random interleaving of all blocks
	var all []c09Block
	var assetNames []string
	seenAsset := map[string]bool{}
	for gi, g := range groups {
		for _, b := range g.blocks {
			b.group = gi
			all = append(all, b)
		}
		for _, a := range g.assets {
			if !seenAsset[a] {
				seenAsset[a] = true
				assetNames = append(assetNames, a)
			}
		}
	}
	sort.Strings(assetNames)
	for i := len(all) - 1; i > 0; i-- {
		j := i - c.Int("world.order", i+1)
		all[i], all[j] = all[j], all[i]
	}
	var b strings.Builder
	b.WriteString(header)
	line := strings.Count(header, "\n") + 1
	var starts, lens []int
	for _, blk := range all {
		starts = append(starts, line)
		lens = append(lens, blk.lines)
		b.WriteString(blk.text)
		line += blk.lines
	}
	text := b.String()
	w := c09World(c09Disk(assetNames, text, cfg))
	w.Note = "C09 composed workflow"
	o.World = w
	ro := RunOpts{KeepTrace: env.KeepTrace}
	if w.API != APIMain && c.Weighted("world.secondcall", 1, 6) {
		// one more history: the Linter instance has checked this workflow once already
		ro.Repeat, ro.ReuseLinter = 2, true
		o.probe("second_call_on_one_linter", 1)
	}
	res := RunLint(w, c, ro)
	o.addRun(res.K)
	if env.KeepTrace {
		o.Traces = append(o.Traces, res.K.Trace)
	}
	o.Nontrivial = len(all) >= 2 && res.SitesMulti > 0
	o.Sig = w.Hash() ^ res.ModeSig
	var gnames []string
	for _, g := range groups {
		gnames = append(gnames, g.name)
	}
	o.Sample = map[string]any{"groups": gnames, "jobs": len(all), "diagnostics": len(res.Errs), "workflow": text, "nonidentity_sites_exercised": res.SitesMulti}
	o.Digest = DigestOf(res.Errs, res.Fatal != "")
	if v := runFailure("C09", res.K); v != nil {
		o.V = v
		return o
	}
	if res.Fatal != "" {
		// a YAML-level failure of the composed text is a generator problem, not a verdict
		o.probe("composed_fatal", 1)
		return o
	}
	if len(res.Errs) == 1 && res.Errs[0].Kind == "syntax-check" && strings.Contains(res.Errs[0].Msg, "could not parse as YAML") {
		o.probe("composed_yaml_error", 1)
		return o
	}
	gotBlocks, gotHeader := relativise(res.Errs, starts, lens)
	// diagnostics about a local callee's own defects are reported once per run, at whichever job
	// uses the callee first: they are compared by count, not by job
	gotDef, wantDef := map[string]int{}, map[string]int{}
	defectsComparable := true
	splitDefects := func(ds []relDiag, into map[string]int) []relDiag {
		var rest []relDiag
		for _, d := range ds {
			if reCalleeDefect.MatchString(d.Msg) {
				into[d.Msg]++
				continue
			}
			rest = append(rest, d)
		}
		return rest
	}
	for i := range gotBlocks {
		gotBlocks[i] = splitDefects(gotBlocks[i], gotDef)
	}
	for gi, g := range groups {
		// the group's blocks in composed order
		var mine []c09Block
		var mineIdx []int
		for i, blk := range all {
			if blk.group == gi {
				mine = append(mine, blk)
				mineIdx = append(mineIdx, i)
			}
		}
		ref := lintAlone(o, header, mine, g.assets, cfg)
		if ref.failed != nil {
			o.V = ref.failed
			o.V.Message = "while linting group " + g.name + " alone: " + o.V.Message
			return o
		}
		if ref.fatal != "" {
			o.probe("alone_fatal", 1)
			defectsComparable = false
			continue
		}
		mineDef := map[string]int{}
		refBlocks := make([][]relDiag, len(ref.perBlock))
		for k := range ref.perBlock {
			refBlocks[k] = splitDefects(ref.perBlock[k], mineDef)
		}
		for m, n := range mineDef {
			if n > wantDef[m] {
				wantDef[m] = n
			}
		}
		for k, bi := range mineIdx {
			if !relEqual(gotBlocks[bi], refBlocks[k]) {
				kinds := diffKinds(gotBlocks[bi], refBlocks[k])
				o.V = &Violation{Oracle: "job-independence", Class: "job-diff:" + kinds,
					Message: fmt.Sprintf("job %q (group %s) gets different diagnostics in the composed workflow than when linted with only its header and needed jobs.\n  alone:\n%s  composed (with %d other jobs, lines relative to the job):\n%s", all[bi].id, g.name, relString(refBlocks[k]), len(all)-len(mine), relString(gotBlocks[bi])),
					Detail:  map[string]any{"composed_workflow": text}}
				return o
			}
		}
		// a job of the group that no other job of the group mentions (by needs:, needs.<id> or a duplicate
		// id) can be taken away: the jobs that stay keep their diagnostics
		if len(mine) >= 2 && c.Weighted("world.leafdrop", 1, 3) {
			li := c.Int("world.leaf", len(mine))
			leaf := true
			for k, blk := range mine {
				if k != li && strings.Contains(strings.ToLower(blk.text), strings.ToLower(mine[li].id)) {
					leaf = false
				}
			}
			if leaf {
				o.probe("leaf_job_dropped", 1)
				var rest []c09Block
				var restIdx []int
				for k, blk := range mine {
					if k != li {
						rest = append(rest, blk)
						restIdx = append(restIdx, k)
					}
				}
				ref2 := lintAlone(o, header, rest, g.assets, cfg)
				if ref2.failed != nil {
					o.V = ref2.failed
					o.V.Message = "while linting group " + g.name + " without one job: " + o.V.Message
					return o
				}
				if ref2.fatal == "" {
					scratch := map[string]int{}
					for k2, k := range restIdx {
						without := splitDefects(ref2.perBlock[k2], scratch)
						if !relEqual(without, refBlocks[k]) {
							o.V = &Violation{Oracle: "job-independence", Class: "job-drop-diff:" + diffKinds(without, refBlocks[k]),
								Message: fmt.Sprintf("job %q (group %s) gets different diagnostics when job %q, which it does not need or mention, is taken out of the workflow.\n  with it:\n%s  without it:\n%s", mine[k].id, g.name, mine[li].id, relString(refBlocks[k]), relString(without)),
								Detail:  map[string]any{"composed_workflow": text, "dropped_job": mine[li].id}}
							return o
						}
					}
				}
			}
		}
		if !strings.Contains(header, "jobs.") && gi == 0 {
			if !relEqual(gotHeader, ref.header) {
				o.V = &Violation{Oracle: "header-independence", Class: "header-diff:" + diffKinds(gotHeader, ref.header),
					Message: fmt.Sprintf("the workflow header gets different diagnostics depending on which jobs follow it.\n  with group %s only:\n%s  composed:\n%s", g.name, relString(ref.header), relString(gotHeader)),
					Detail:  map[string]any{"composed_workflow": text}}
				return o
			}
		}
	}
	if defectsComparable {
		for _, m := range sortedKeys(wantDef) {
			if gotDef[m] != wantDef[m] {
				o.V = &Violation{Oracle: "callee-defect-once", Class: "callee-defect-count",
					Message: fmt.Sprintf("a defect of a local callee is reported %d time(s) in the composed workflow but %d time(s) when the jobs using it are linted alone: %s", gotDef[m], wantDef[m], m),
					Detail:  map[string]any{"composed_workflow": text}}
				return o
			}
		}
		for _, m := range sortedKeys(gotDef) {
			if _, ok := wantDef[m]; !ok {
				o.V = &Violation{Oracle: "callee-defect-once", Class: "callee-defect-spurious",
					Message: fmt.Sprintf("the composed workflow reports a defect of a local callee that no job reports when linted alone: %s", m),
					Detail:  map[string]any{"composed_workflow": text}}
				return o
			}
		}
	}
	// step-level variant: inserting an unrelated step (no id) into a job changes
	// nothing but line offsets. Reference: the unmodified job linted alone.
	if c.Weighted("world.stepvariant", 1, 2) {
		g := groups[c.Int("world.stepgroup", len(groups))]
		if len(g.blocks) == 1 {
			orig := g.blocks[0]
			mod := orig
			c09InsertDynamicID = c.Weighted("world.insdynamic", 1, 4)
			dyn := c09InsertDynamicID
			at := insertUnrelatedStep(c, &mod)
			c09InsertDynamicID = false
			if at > 0 {
				r1 := lintAlone(o, header, []c09Block{orig}, g.assets, cfg)
				r2 := lintAlone(o, header, []c09Block{mod}, g.assets, cfg)
				if r1.failed == nil && r2.failed == nil && r1.fatal == "" && r2.fatal == "" {
					o.probe("step_insertions_checked", 1)
					want := shiftRel(r1.perBlock[0], at)
					got := r2.perBlock[0]
					if dyn {
						// only the steps before the inserted one are compared
						before := func(ds []relDiag) []relDiag {
							var out []relDiag
							for _, d := range ds {
								if d.Line < at && !strings.Contains(d.Msg, "line:") {
									out = append(out, d)
								}
							}
							return out
						}
						want, got = before(r1.perBlock[0]), before(r2.perBlock[0])
					}
					if !relEqual(want, got) {
						o.V = &Violation{Oracle: "step-independence", Class: "step-diff:" + diffKinds(want, got),
							Message: fmt.Sprintf("inserting an unrelated step (no id; or, compared for the earlier steps only, one with a computed id: %v) at line +%d of job %q changes the diagnostics of the job beyond the line offset.\n  expected (original shifted):\n%s  got:\n%s", dyn, at, orig.id, relString(want), relString(got)),
							Detail:  map[string]any{"job": mod.text}}
						return o
					}
				}
			}
		}
	}
	// step-level variant 0: the diagnostics of a step depend on the ids of the other steps, not on
	// what those steps do: replacing the body of a step that calls no action (keeping its id) by a
	// plain run step changes nothing for the other steps but line offsets.
	if c.Weighted("world.stepswap", 1, 2) {
		g := groups[c.Int("world.swapgroup", len(groups))]
		if len(g.blocks) == 1 {
			orig := g.blocks[0]
			mod := orig
			if from, to, n := swapStepBody(c, &mod); from > 0 {
				r1 := lintAlone(o, header, []c09Block{orig}, g.assets, cfg)
				r2 := lintAlone(o, header, []c09Block{mod}, g.assets, cfg)
				if r1.failed == nil && r2.failed == nil && r1.fatal == "" && r2.fatal == "" {
					o.probe("step_body_swaps_checked", 1)
					var want, got []relDiag
					ok := true
					for _, d := range r1.perBlock[0] {
						if d.Line >= from && d.Line < to {
							continue
						}
						if strings.Contains(d.Msg, "line:") {
							ok = false
						}
						if d.Line >= to {
							d.Line += n - (to - from)
						}
						want = append(want, d)
					}
					for _, d := range r2.perBlock[0] {
						if d.Line >= from && d.Line < from+n {
							continue
						}
						got = append(got, d)
					}
					if ok && !relEqual(want, got) {
						o.V = &Violation{Oracle: "step-independence", Class: "step-swap-diff:" + diffKinds(want, got),
							Message: fmt.Sprintf("replacing the body of the step at lines +%d..+%d of job %q by a plain run step (same id) changes the diagnostics of the other steps beyond the line offset.\n  expected (original, shifted):\n%s  got:\n%s", from, to-1, orig.id, relString(want), relString(got)),
							Detail:  map[string]any{"job": orig.text, "modified_job": mod.text}}
						return o
					}
				}
			}
		}
	}
	// step-level variant 2: removing a step that has no id changes nothing for
	// the remaining steps of the job but line offsets (checking one expression
	// never alters how a later one is typed). Reference: the unmodified job.
	if c.Weighted("world.stepdelete", 1, 2) {
		g := groups[c.Int("world.delgroup", len(groups))]
		if len(g.blocks) == 1 {
			orig := g.blocks[0]
			mod := orig
			if from, to := deleteStep(c, &mod); from > 0 {
				r1 := lintAlone(o, header, []c09Block{orig}, g.assets, cfg)
				r2 := lintAlone(o, header, []c09Block{mod}, g.assets, cfg)
				if r1.failed == nil && r2.failed == nil && r1.fatal == "" && r2.fatal == "" {
					o.probe("step_deletions_checked", 1)
					var want []relDiag
					ok := true
					for _, d := range r1.perBlock[0] {
						if d.Line >= from && d.Line < to {
							continue // diagnostics of the removed step
						}
						if strings.Contains(d.Msg, "line:") {
							ok = false // echoes a position; not worth modelling here
						}
						if d.Line >= to {
							d.Line -= to - from
						}
						want = append(want, d)
					}
					sortRel(want)
					if ok && !relEqual(want, r2.perBlock[0]) {
						o.V = &Violation{Oracle: "step-independence", Class: "step-delete-diff:" + diffKinds(want, r2.perBlock[0]),
							Message: fmt.Sprintf("removing the id-less step at lines +%d..+%d of job %q changes the diagnostics of the remaining steps beyond the line offset.\n  expected (original minus the step, shifted):\n%s  got:\n%s", from, to-1, orig.id, relString(want), relString(r2.perBlock[0])),
							Detail:  map[string]any{"job_before": orig.text, "job_after": mod.text}}
						return o
					}
				}
			}
		}
	}
	// step-level variant 3: swapping two adjacent id-less steps moves their diagnostics with them
	// and changes nothing else.
	if c.Weighted("world.stepswap", 1, 2) {
		g := groups[c.Int("world.swapgroup", len(groups))]
		if len(g.blocks) == 1 {
			orig := g.blocks[0]
			mod := orig
			if aFrom, aTo, bTo := swapSteps(c, &mod); aFrom > 0 {
				r1 := lintAlone(o, header, []c09Block{orig}, g.assets, cfg)
				r2 := lintAlone(o, header, []c09Block{mod}, g.assets, cfg)
				if r1.failed == nil && r2.failed == nil && r1.fatal == "" && r2.fatal == "" {
					o.probe("step_swaps_checked", 1)
					var want []relDiag
					ok := true
					for _, d := range r1.perBlock[0] {
						if strings.Contains(d.Msg, "line:") {
							ok = false
						}
						switch {
						case d.Line >= aFrom && d.Line < aTo:
							d.Line += bTo - aTo
						case d.Line >= aTo && d.Line < bTo:
							d.Line -= aTo - aFrom
						}
						want = append(want, d)
					}
					sortRel(want)
					if ok && !relEqual(want, r2.perBlock[0]) {
						o.V = &Violation{Oracle: "step-independence", Class: "step-swap-diff:" + diffKinds(want, r2.perBlock[0]),
							Message: fmt.Sprintf("swapping the adjacent id-less steps at lines +%d..+%d and +%d..+%d of job %q changes diagnostics beyond moving them with their steps.\n  expected:\n%s  got:\n%s", aFrom, aTo-1, aTo, bTo-1, orig.id, relString(want), relString(r2.perBlock[0])),
							Detail:  map[string]any{"job_before": orig.text, "job_after": mod.text}}
						return o
					}
				}
			}
		}
	}
	return o
}

// swapSteps swaps two adjacent steps that have no id; it returns the relative line ranges
// [aFrom,aTo) and [aTo,bTo) of the two steps before the swap.
func swapSteps(c *Chooser, blk *c09Block) (int, int, int) {
	var doc yaml.Node
	if yaml.Unmarshal([]byte(blk.text), &doc) != nil || len(doc.Content) != 1 || doc.Content[0].Kind != yaml.MappingNode || len(doc.Content[0].Content) < 2 {
		return 0, 0, 0
	}
	job := doc.Content[0].Content[1]
	if job.Kind != yaml.MappingNode {
		return 0, 0, 0
	}
	for i := 0; i+1 < len(job.Content); i += 2 {
		if job.Content[i].Value != "steps" || job.Content[i+1].Kind != yaml.SequenceNode || job.Content[i+1].Style&yaml.FlowStyle != 0 {
			continue
		}
		seq := job.Content[i+1]
		if len(seq.Content) < 2 {
			return 0, 0, 0
		}
		k := c.Int("world.swapat", len(seq.Content)-1)
		a, b := seq.Content[k], seq.Content[k+1]
		for _, st := range []*yaml.Node{a, b} {
			if st.Kind != yaml.MappingNode {
				return 0, 0, 0
			}
			for m := 0; m+1 < len(st.Content); m += 2 {
				if strings.EqualFold(st.Content[m].Value, "id") {
					return 0, 0, 0
				}
			}
		}
		aFrom, aTo := a.Line, b.Line
		bTo := blk.lines + 1
		if k+2 < len(seq.Content) {
			bTo = seq.Content[k+2].Line
		} else if i+2 < len(job.Content) {
			bTo = job.Content[i+2].Line
		}
		lines := strings.SplitAfter(blk.text, "\n")
		if len(lines) > 0 && lines[len(lines)-1] == "" {
			lines = lines[:len(lines)-1]
		}
		if aFrom < 2 || aTo <= aFrom || bTo <= aTo || bTo-1 > len(lines) {
			return 0, 0, 0
		}
		if !strings.HasPrefix(strings.TrimLeft(lines[aFrom-1], " "), "- ") || !strings.HasPrefix(strings.TrimLeft(lines[aTo-1], " "), "- ") {
			return 0, 0, 0
		}
		out := append([]string{}, lines[:aFrom-1]...)
		out = append(out, lines[aTo-1:bTo-1]...)
		out = append(out, lines[aFrom-1:aTo-1]...)
		out = append(out, lines[bTo-1:]...)
		blk.text = strings.Join(out, "")
		return aFrom, aTo, bTo
	}
	return 0, 0, 0
}

// deleteStep removes one step without an id from the block's steps list (the
// list must keep at least one step) and returns the removed relative line range [from,to).
func deleteStep(c *Chooser, blk *c09Block) (int, int) {
	var doc yaml.Node
	if yaml.Unmarshal([]byte(blk.text), &doc) != nil || len(doc.Content) != 1 || doc.Content[0].Kind != yaml.MappingNode || len(doc.Content[0].Content) < 2 {
		return 0, 0
	}
	job := doc.Content[0].Content[1]
	if job.Kind != yaml.MappingNode {
		return 0, 0
	}
	for i := 0; i+1 < len(job.Content); i += 2 {
		if job.Content[i].Value != "steps" || job.Content[i+1].Kind != yaml.SequenceNode || job.Content[i+1].Style&yaml.FlowStyle != 0 {
			continue
		}
		seq := job.Content[i+1]
		if len(seq.Content) < 2 {
			return 0, 0
		}
		k := c.Int("world.delat", len(seq.Content))
		st := seq.Content[k]
		if st.Kind != yaml.MappingNode {
			return 0, 0
		}
		for m := 0; m+1 < len(st.Content); m += 2 {
			if strings.EqualFold(st.Content[m].Value, "id") {
				return 0, 0
			}
		}
		from := st.Line
		to := blk.lines + 1
		if k+1 < len(seq.Content) {
			to = seq.Content[k+1].Line
		} else if i+2 < len(job.Content) {
			to = job.Content[i+2].Line
		}
		lines := strings.SplitAfter(blk.text, "\n")
		if len(lines) > 0 && lines[len(lines)-1] == "" {
			lines = lines[:len(lines)-1]
		}
		if from < 2 || to <= from || to-1 > len(lines) {
			return 0, 0
		}
		// the removed range must start at a "- " line and stay inside the steps list
		if !strings.HasPrefix(strings.TrimLeft(lines[from-1], " "), "- ") {
			return 0, 0
		}
		out := append([]string{}, lines[:from-1]...)
		out = append(out, lines[to-1:]...)
		blk.text = strings.Join(out, "")
		blk.lines -= to - from
		return from, to
	}
	return 0, 0
}

// swapStepBody replaces the body of one step that does not call an action (a run step, or a
// step whose run key is misspelt or missing) by a plain run step, keeping its id. It returns the
// line range [from, to) of the original step and the number of lines of the replacement.
func swapStepBody(c *Chooser, blk *c09Block) (from, to, newLines int) {
	var doc yaml.Node
	if yaml.Unmarshal([]byte(blk.text), &doc) != nil || len(doc.Content) != 1 || doc.Content[0].Kind != yaml.MappingNode || len(doc.Content[0].Content) < 2 {
		return 0, 0, 0
	}
	job := doc.Content[0].Content[1]
	if job.Kind != yaml.MappingNode {
		return 0, 0, 0
	}
	for i := 0; i+1 < len(job.Content); i += 2 {
		if job.Content[i].Value != "steps" || job.Content[i+1].Kind != yaml.SequenceNode || job.Content[i+1].Style&yaml.FlowStyle != 0 {
			continue
		}
		seq := job.Content[i+1]
		if len(seq.Content) < 2 {
			return 0, 0, 0
		}
		k := c.Int("world.swapat", len(seq.Content))
		st := seq.Content[k]
		if st.Kind != yaml.MappingNode || st.Style&yaml.FlowStyle != 0 {
			return 0, 0, 0
		}
		id := ""
		for m := 0; m+1 < len(st.Content); m += 2 {
			switch strings.ToLower(st.Content[m].Value) {
			case "id":
				if st.Content[m+1].Kind != yaml.ScalarNode || strings.Contains(st.Content[m+1].Value, "${{") {
					return 0, 0, 0
				}
				id = st.Content[m+1].Value
			case "uses":
				return 0, 0, 0 // the outputs of an action step are typed by its metadata: not a body swap
			}
		}
		from = st.Line
		to = blk.lines + 1
		if k+1 < len(seq.Content) {
			to = seq.Content[k+1].Line
		} else if i+2 < len(job.Content) {
			to = job.Content[i+2].Line
		}
		lines := strings.SplitAfter(blk.text, "\n")
		if len(lines) > 0 && lines[len(lines)-1] == "" {
			lines = lines[:len(lines)-1]
		}
		if from < 2 || to <= from || to-1 > len(lines) {
			return 0, 0, 0
		}
		first := lines[from-1]
		ind := len(first) - len(strings.TrimLeft(first, " "))
		if !strings.HasPrefix(first[ind:], "- ") {
			return 0, 0, 0
		}
		pad := strings.Repeat(" ", ind)
		var repl []string
		if id != "" {
			repl = append(repl, pad+"- id: "+id+"\n", pad+"  run: echo swapped\n")
		} else {
			repl = append(repl, pad+"- run: echo swapped\n")
		}
		out := append([]string{}, lines[:from-1]...)
		out = append(out, repl...)
		out = append(out, lines[to-1:]...)
		blk.text = strings.Join(out, "")
		blk.lines += len(repl) - (to - from)
		return from, to, len(repl)
	}
	return 0, 0, 0
}

// shiftRel shifts diagnostics (and positions echoed in their messages) at or
// after relative line `at` down by one line.
func shiftRel(ds []relDiag, at int) []relDiag {
	out := make([]relDiag, len(ds))
	for i, d := range ds {
		if d.Line >= at {
			d.Line++
		}
		d.Msg = regexp.MustCompile(`line:\+(\d+),col:`).ReplaceAllStringFunc(d.Msg, func(s string) string {
			n, _ := strconv.Atoi(strings.TrimSuffix(strings.TrimPrefix(s, "line:+"), ",col:"))
			if n >= at {
				n++
			}
			return fmt.Sprintf("line:+%d,col:", n)
		})
		out[i] = d
	}
	sortRel(out)
	return out
}

// diffKinds names the kinds of the diagnostics that differ (stable class key).
func diffKinds(a, b []relDiag) string {
	cnt := map[relDiag]int{}
	for _, d := range a {
		cnt[d]++
	}
	for _, d := range b {
		cnt[d]--
	}
	kinds := map[string]bool{}
	for d, n := range cnt {
		if n != 0 {
			kinds[d.Kind] = true
		}
	}
	ks := make([]string, 0, len(kinds))
	for k := range kinds {
		ks = append(ks, k)
	}
	sort.Strings(ks)
	return strings.Join(ks, "+")
}

// insertUnrelatedStep inserts a step without id into the first steps: list of
// the block (found with yaml.v3), shifting nothing else.
// c09InsertDynamicID makes insertUnrelatedStep insert a step with a computed id instead.
var c09InsertDynamicID bool

func insertUnrelatedStep(c *Chooser, blk *c09Block) int {
	var doc yaml.Node
	if yaml.Unmarshal([]byte(blk.text), &doc) != nil || len(doc.Content) != 1 || doc.Content[0].Kind != yaml.MappingNode || len(doc.Content[0].Content) < 2 {
		return 0
	}
	job := doc.Content[0].Content[1]
	if job.Kind != yaml.MappingNode {
		return 0
	}
	for i := 0; i+1 < len(job.Content); i += 2 {
		if job.Content[i].Value != "steps" || job.Content[i+1].Kind != yaml.SequenceNode || job.Content[i+1].Style&yaml.FlowStyle != 0 {
			continue
		}
		seq := job.Content[i+1]
		if len(seq.Content) == 0 {
			return 0
		}
		// insert before step k (or after the last one): always at the start line of a step
		k := c.Int("world.insat", len(seq.Content))
		st := seq.Content[k]
		lines := strings.SplitAfter(blk.text, "\n")
		if st.Line-1 < 1 || st.Line-1 > len(lines) {
			return 0
		}
		src := lines[st.Line-1]
		dash := strings.Index(src, "- ")
		if dash < 0 || st.Column != dash+3 && st.Column != dash+1 {
			return 0
		}
		ins := strings.Repeat(" ", dash) + "- run: echo unrelated step\n"
		if c09InsertDynamicID {
			// a step whose id is computed: it may change what later steps can refer to, never earlier ones
			ins = strings.Repeat(" ", dash) + "- id: ${{ matrix.some-dynamic-id }}\n" + strings.Repeat(" ", dash) + "  run: echo step with a computed id\n"
			blk.lines++
		}
		out := append([]string{}, lines[:st.Line-1]...)
		out = append(out, ins)
		out = append(out, lines[st.Line-1:]...)
		blk.text = strings.Join(out, "")
		blk.lines++
		return st.Line
	}
	return 0
}
