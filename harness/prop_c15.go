package harness

import (
	"encoding/json"
	"fmt"
	"path"
	"regexp"
	"sort"
	"strings"

	"github.com/bmatcuk/doublestar/v4"

	"verifsim/sim/kern"
)

// C15 - ignore patterns are an exact filter; results do not depend on the cwd.
//
// No schedule dimension of its own: what varies is the process environment the
// simulator owns - virtual working directory, path spelling, repository layout
// (nested / sibling repositories), a failing getwd - so that one OS process
// sweeps thousands of (layout, cwd, spelling, filter) points.
//
// Reference model (independent of actionlint):
//
//	expected(F) = [ d in U | no -ignore pattern matches d.Message and no pattern of a `paths`
//	               entry whose glob matches rel(root(file), file) matches d.Message ]   (order kept)
//	exit status  = 2 invalid flags; 3 fatal; else 1 iff expected non-empty, else 0

type c15 struct{}

func init() { Register(c15{}) }

func (c15) ID() string { return "C15" }

type c15Diag struct {
	Abs  string
	Line int
	Col  int
	Kind string
	Msg  string
}

var c15Globs = []string{
	`\.github/workflows/*.yml`, // a backslash escapes any character, also an ordinary one
	`.github/work\flows/**`,
	".github/workflows/**/*.yml",
	".github/workflows/a*.yml",
	"**/b*.yml",
	"**/*",
	".github/workflows/*.yaml",  // matches nothing here
	"workflows/*.yml",           // only matches when the path is (wrongly) taken relative to .github
	"a*.yml",                    // only matches when the path is (wrongly) taken relative to .github/workflows
	"*/.github/workflows/*.yml", // only matches when the path is (wrongly) taken relative to the parent of the repository
	"{.github,other}/workflows/[ab]*.yml",
	"./.github/workflows/*.yml", // "./" is an element of its own to the matcher: a repository-relative path never has it
	"./**/*.yml",
}

var c15Ignores = []string{
	"is unknown",
	"not defined",
	"missing",
	".+",
	"^label ",
	"potentially untrusted",
	"is required",
	"shellcheck reported",       // matches nothing
	"(input|secret) \"[a-z]+\"", // grouping, quotes
	"(?i)THIS MATCHES NOTHING",  // an inline flag must stay inside its own pattern
	"LABEL|PROPERTY|UNDEFINED",  // matches nothing unless another pattern's (?i) leaks into it
	"\\Qa.b",                    // unterminated quoting: literal text, matches nothing
	"could not parse as YAML",   // the diagnostic of a file that is not YAML at all
	"^.*$",                      // anchored at both ends: matches every message, and only the message
	"unknown\\. available labels are .*\"$",
	"[a-z\")]$",
	"\\]$", // no message ends with a bracket
	" is",  // white space at the edge of a pattern is part of the pattern
	"label ",
	"unknown\\. ",
	"^is unknown$", // literal text anchored at both ends: matches only a message that IS that text, so none
	"^label$",
	"^missing$",
}

func genC15Config(c *Chooser) (cfg string, entries map[string][]string, order []string) {
	entries = map[string][]string{}
	var b strings.Builder
	if c.Weighted("world.cfglabels", 1, 3) {
		b.WriteString("self-hosted-runner:\n  labels: [gpu, linux-*]\n")
	}
	n := c.Int("world.npaths", 4)
	anchors := n > 1 && c.Weighted("world.cfganchors", 1, 4)
	if n > 0 {
		b.WriteString("paths:\n")
		for i := 0; i < n; i++ {
			g := c15Globs[c.Int("world.glob", len(c15Globs))]
			if _, dup := entries[g]; dup {
				continue
			}
			if anchors && len(order) > 0 {
				// a later entry takes over the first entry's patterns by a YAML alias: as its whole
				// value, as its pattern list, or through a merge key - all mean the same patterns
				form := c.Int("world.cfgalias", 4)
				switch form {
				case 1:
					fmt.Fprintf(&b, "  %q: *e0\n", g)
				case 2:
					fmt.Fprintf(&b, "  %q:\n    ignore: *l0\n", g)
				case 3:
					fmt.Fprintf(&b, "  %q:\n    <<: *e0\n", g)
				}
				if form != 0 {
					entries[g] = append([]string{}, entries[order[0]]...)
					order = append(order, g)
					continue
				}
			}
			if anchors && len(order) == 0 {
				fmt.Fprintf(&b, "  %q: &e0\n    ignore: &l0\n", g)
			} else {
				fmt.Fprintf(&b, "  %q:\n    ignore:\n", g)
			}
			m := 1 + c.Int("world.nign", 3)
			for j := 0; j < m; j++ {
				if c.Weighted("world.rawitem", 1, 12) {
					// list items written without quotes whose text YAML would read as null: for the
					// pattern list they are the patterns "null", "~" and "" (which matches everything)
					raw := []string{"null", "~", ""}[c.Int("world.rawitemkind", 3)]
					fmt.Fprintf(&b, "      - %s\n", raw)
					entries[g] = append(entries[g], raw)
					continue
				}
				p := c15Ignores[c.Int("world.ign", len(c15Ignores))]
				fmt.Fprintf(&b, "      - %s\n", yamlSingleQuote(p))
				entries[g] = append(entries[g], p)
			}
			order = append(order, g)
		}
	}
	return b.String(), entries, order
}

func yamlSingleQuote(s string) string { return "'" + strings.ReplaceAll(s, "'", "''") + "'" }

// stripPaths removes the paths section (it is always last in generated configs).
func stripPaths(cfg string) string {
	if i := strings.Index(cfg, "paths:\n"); i >= 0 {
		return cfg[:i]
	}
	return cfg
}

func parseJSONDiags(out string, cwd string) ([]c15Diag, error) {
	var raw []struct {
		Message  string `json:"message"`
		Filepath string `json:"filepath"`
		Line     int    `json:"line"`
		Column   int    `json:"column"`
		Kind     string `json:"kind"`
	}
	if strings.TrimSpace(out) == "" {
		return nil, nil
	}
	if err := json.Unmarshal([]byte(out), &raw); err != nil {
		return nil, err
	}
	ds := make([]c15Diag, 0, len(raw))
	for _, r := range raw {
		p := r.Filepath
		if !strings.HasPrefix(p, "/") {
			p = path.Join(cwd, p)
		}
		ds = append(ds, c15Diag{Abs: path.Clean(p), Line: r.Line, Col: r.Column, Kind: r.Kind, Msg: r.Message})
	}
	return ds, nil
}

var reOneline = regexp.MustCompile(`^(.+?):(\d+):(\d+): (.*) \[([a-z0-9-]+)\]$`)

func parseOnelineDiags(out string, cwd string) ([]c15Diag, error) {
	var ds []c15Diag
	for _, l := range strings.Split(strings.TrimRight(out, "\n"), "\n") {
		if l == "" {
			continue
		}
		m := reOneline.FindStringSubmatch(l)
		if m == nil {
			return nil, fmt.Errorf("unparsable -oneline line %q", l)
		}
		p := m[1]
		if !strings.HasPrefix(p, "/") {
			p = path.Join(cwd, p)
		}
		var ln, col int
		fmt.Sscan(m[2], &ln)
		fmt.Sscan(m[3], &col)
		ds = append(ds, c15Diag{Abs: path.Clean(p), Line: ln, Col: col, Kind: m[5], Msg: m[4]})
	}
	return ds, nil
}

func (c15) Eval(c *Chooser, env *Env) *Outcome {
	o := &Outcome{}
	disk := kern.NewDisk()
	// layout: the repository under test, optionally an enclosing and a sibling repository
	roots := []string{"/w/app", "/w/app/vendor/sub", "/x/y/z/r"}
	root := roots[c.Int("world.root", len(roots))]
	disk.MkdirAll(root + "/.git")
	disk.MkdirAll(root + "/.github/workflows")
	enclosing := root == "/w/app/vendor/sub" && c.Bool("world.enclosing")
	if enclosing {
		disk.MkdirAll("/w/app/.git")
		disk.Put("/w/app/.github/workflows/outer.yml", []byte("on: push\njobs:\n  o:\n    runs-on: ubuntu-latest\n    steps:\n      - run: echo\n"))
		disk.Put("/w/app/.github/actionlint.yaml", []byte("paths:\n  '**/*':\n    ignore: ['.+']\n"))
	}
	sib := ""
	if c.Bool("world.sibling") {
		sib = root + "-tools"
		if c.Bool("world.casesibling") {
			// a repository whose root differs from the first one only in letter case
			sib = path.Dir(root) + "/" + strings.ToUpper(path.Base(root))
		}
		disk.MkdirAll(sib + "/.git")
		disk.Put(sib+"/.github/workflows/a0.yml", []byte("on: push\njobs:\n  s:\n    runs-on: bogus-label\n    steps:\n      - run: echo ${{ matrix.nope }}\n"))
		disk.Put(sib+"/.github/actionlint.yaml", []byte("paths:\n  '**/*':\n    ignore: ['is unknown']\n"))
	}
	cfg, entries, order := genC15Config(c)
	nfiles := 1 + c.Int("world.nfiles", 3)
	var files []string
	var assetNames []string
	for fi := 0; fi < nfiles; fi++ {
		name := fmt.Sprintf("%s/.github/workflows/%c%d.yml", root, 'a'+byte(fi), fi)
		text, as, _ := composeWorkflow(c, GenOpts{Ties: true}, fi)
		if c.Weighted("world.cutoff", 1, 10) {
			// a file whose writer stopped in the middle of a flow sequence: its only diagnostic is the
			// YAML parse error, which is a diagnostic like any other for the filter
			text = text[:len(text)*(1+c.Int("world.cutat", 3))/4] + "\n    broken: [a, {b: c\n"
			as = nil
			o.probe("cut_off_workflow_file", 1)
		}
		if c.Weighted("world.symlink", 1, 6) {
			// a workflow that is a symbolic link to a file outside the repository (or inside the
			// sibling repository) still belongs to the repository that contains its path
			target := fmt.Sprintf("/shared/wf/f%d.yml", fi)
			if sib != "" && c.Bool("world.symlinkintosib") {
				target = fmt.Sprintf("%s/shared-f%d.yml", sib, fi)
			}
			disk.Put(target, []byte(text))
			disk.Symlink(name, target)
		} else {
			disk.Put(name, []byte(text))
		}
		assetNames = append(assetNames, as...)
		files = append(files, name)
	}
	InstallAssets(func(p, ct string) { disk.Put(p, []byte(ct)) }, root, assetNames)
	diskU := disk.Clone()
	if cfg != "" {
		disk.Put(root+"/.github/actionlint.yaml", []byte(cfg))
	} else if c.Weighted("world.commentcfg", 1, 6) {
		// a configuration file that configures nothing: only a comment and blank lines
		disk.Put(root+"/.github/actionlint.yaml", []byte("# nothing configured yet\n\n"))
		o.probe("comment_only_config", 1)
	}
	if u := stripPaths(cfg); u != "" {
		diskU.Put(root+"/.github/actionlint.yaml", []byte(u))
	}
	if sib != "" {
		delete(diskU.Files, sib+"/.github/actionlint.yaml")
	}
	var cfgFlag []string
	// -ignore flags
	var cli []string
	for i, n := 0, c.Int("world.ncli", 5); i < n; i++ {
		if c.Weighted("world.cliempty", 1, 12) {
			cli = append(cli, "") // the empty regular expression matches every message
			continue
		}
		cli = append(cli, c15Ignores[c.Int("world.cliign", len(c15Ignores))])
	}
	// mode, cwd, spelling
	cwds := []string{root, path.Dir(root), root + "/.github/workflows", root + "/.github", "/", "/elsewhere"}
	cwd := cwds[c.Int("world.cwd", len(cwds))]
	disk.MkdirAll(cwd)
	diskU.MkdirAll(cwd)
	mode := c.Int("world.mode", 6) // 0 files, 1 single file, 2 no arguments (repository of the cwd), 3 files with getwd failing, 4 stdin with -stdin-filename, 5 repository config unreadable
	inRepo := cwd == root || strings.HasPrefix(cwd, root+"/")
	if mode == 2 && !inRepo {
		mode = 0
	}
	if mode == 2 && cwd == root && c.Weighted("world.cwdvialink", 1, 6) {
		// the working directory is the repository root reached through a symbolic link
		disk.Symlink("/w/lnk-to-root", root)
		cwd = "/w/lnk-to-root"
		o.probe("cwd_through_a_directory_link", 1)
	}
	// what getwd answers: the launcher's spelling of the directory ($PWD is handed through verbatim
	// when it names the current directory), which need not be a clean path
	cwdAsGiven := cwd
	if cwd != "/" && cwd != "/w/lnk-to-root" && c.Weighted("world.cwduncleanspelling", 1, 6) {
		switch c.Int("world.cwdspellingkind", 4) {
		case 0:
			cwdAsGiven = cwd + "/"
		case 1:
			cwdAsGiven = path.Dir(cwd) + "//" + path.Base(cwd)
		case 2:
			cwdAsGiven = path.Dir(cwd) + "/./" + path.Base(cwd)
		case 3:
			cwdAsGiven = cwd + "/../" + path.Base(cwd)
		}
		cwdAsGiven = strings.Replace(cwdAsGiven, "///", "//", 1)
		o.probe("cwd_spelled_uncleanly", 1)
	}
	lintFiles := files
	if mode == 1 || mode == 4 {
		lintFiles = files[:1]
	}
	if mode == 5 && cfg == "" {
		mode = 0
	}
	// a file outside every repository, in a directory that is an ancestor of the repository, named first
	looseFirst := mode == 0 && c.Weighted("world.loosefirst", 1, 6)
	if looseFirst {
		lp := path.Dir(root) + "/loose.yml"
		loose := []byte("on: push\njobs:\n  l:\n    runs-on: bogus-label\n    steps:\n      - run: echo\n")
		disk.Put(lp, loose)
		diskU.Put(lp, loose)
		lintFiles = append([]string{lp}, lintFiles...)
	}
	// files of a second repository (its own config) in the same invocation
	sibArg := sib != "" && mode == 0 && c.Bool("world.sibarg")
	if sibArg {
		at := c.Int("world.sibpos", len(lintFiles)+1)
		lf := append([]string{}, lintFiles[:at]...)
		lf = append(lf, sib+"/.github/workflows/a0.yml")
		lintFiles = append(lf, lintFiles[at:]...)
	}
	// a file of the enclosing repository (clean, and everything in it ignored by that repository's
	// own configuration) in the same invocation: the files of the nested repository keep their own
	if enclosing && mode == 0 && c.Bool("world.outerarg") {
		at := c.Int("world.outerpos", len(lintFiles)+1)
		lf := append([]string{}, lintFiles[:at]...)
		lf = append(lf, "/w/app/.github/workflows/outer.yml")
		lintFiles = append(lf, lintFiles[at:]...)
		o.probe("enclosing_repository_file_in_the_same_run", 1)
	}
	if cfg != "" && sib == "" && !looseFirst && !sibArg && mode != 5 && mode != 3 && c.Weighted("world.cfgviaflag", 1, 6) {
		// the same configuration given with -config-file instead of lying in the repository
		delete(disk.Files, root+"/.github/actionlint.yaml")
		if c.Bool("world.decoycfg") {
			// the repository has a configuration of its own as well: the file given on the command line counts
			disk.Put(root+"/.github/actionlint.yaml", []byte("paths:\n  '**':\n    ignore: ['never-matches-anything-xyz']\n"))
		}
		disk.Put("/w/cfg/custom-actionlint.yaml", []byte(cfg))
		cfgFlag = []string{"-config-file", "/w/cfg/custom-actionlint.yaml"}
		o.probe("config_file_option", 1)
	}
	spellKind := c.Int("world.spelling", 5) // 0 relative, 1 ./relative, 2 absolute, 3 with .., 4 absolute with /./, // and dir/..
	var args []string
	args = append(args, cfgFlag...)
	for _, p := range cli {
		args = append(args, "-ignore", p)
	}
	format := c.Int("world.format", 2) // 0 json template, 1 -oneline
	if format == 0 {
		args = append(args, "-format", "{{json .}}")
	} else {
		args = append(args, "-oneline")
	}
	args = append(args, "-no-color", "-shellcheck=", "-pyflakes=")
	var spelled []string
	if mode != 2 {
		for _, f := range lintFiles {
			s := spell(f, cwd, spellKind != 2 && spellKind != 4)
			switch spellKind {
			case 4:
				d := path.Dir(s)
				s = path.Dir(d) + "/./" + path.Base(d) + "//../" + path.Base(d) + "/" + path.Base(s)
			case 1:
				if !strings.HasPrefix(s, "/") && !strings.HasPrefix(s, "../") {
					s = "./" + s
				}
			case 3:
				if !strings.HasPrefix(s, "/") {
					// detour through an existing directory
					if i := strings.IndexByte(s, '/'); i > 0 && !strings.HasPrefix(s, "..") {
						s = s[:i] + "/../" + s
					}
				} else {
					s = path.Dir(s) + "/../" + path.Base(path.Dir(s)) + "/" + path.Base(s)
				}
			}
			spelled = append(spelled, s)
		}
	}
	if (mode == 0 || mode == 1) && !strings.HasPrefix(cwd, root+"/.github/workflows") && c.Weighted("world.wfdirlink", 1, 10) {
		// .github/workflows is a symbolic link to a directory kept elsewhere (files named explicitly)
		RelocateDir(disk, root+"/.github/workflows", "/shared/workflows-of"+strings.ReplaceAll(root, "/", "-"))
		RelocateDir(diskU, root+"/.github/workflows", "/shared/workflows-of"+strings.ReplaceAll(root, "/", "-"))
		o.probe("workflows_dir_is_a_symlink", 1)
	}
	w := &World{Disk: disk, Cwd: cwdAsGiven, CPUs: []int{2, 1, 4}[c.Int("world.cpus", 3)], API: APIMain, Args: append(append([]string{}, args...), spelled...), Note: "C15 filtered run"}
	if mode == 4 {
		// the content arrives on stdin; the file name (any spelling) says where it belongs
		w.Args = append(append([]string{}, args...), "-stdin-filename", spelled[0], "-")
		content := disk.Files[lintFiles[0]]
		if rp, st := disk.Resolve(lintFiles[0], true); st == 0 {
			content = disk.Files[rp]
		}
		w.Stdin = string(content)
		if c.Weighted("fault.statstdinname", 1, 4) {
			// every stat of the named file fails (EIO): it cannot be said NOT to exist, so the content
			// still belongs to the repository the name lies in and that repository's configuration applies
			w.Faults = append(w.Faults, kern.Fault{Kind: kern.FStatErr, Path: lintFiles[0]})
			o.probe("stdin_filename_stat_fails", 1)
		}
	}
	if mode == 5 {
		kind := []string{kern.FReadEIO, kern.FReadEACCES, kern.FReadEISDIR}[c.Int("fault.cfgkind", 3)]
		w.Faults = append(w.Faults, kern.Fault{Kind: kind, Path: root + "/.github/actionlint.yaml"})
	}
	if mode == 3 {
		w.Faults = []kern.Fault{{Kind: kern.FGetwdErr}}
		// without a working directory only absolute spellings can be resolved at all
		w.Args = append([]string{}, args...)
		for _, f := range lintFiles {
			w.Args = append(w.Args, f)
		}
	}
	o.World = w
	if kern.RaceLane {
		r := RunLint(w, c, RunOpts{KeepTrace: env.KeepTrace})
		o.addRun(r.K)
		o.Nontrivial = r.K.MaxRunnable >= 2
		o.Sig = w.Hash() ^ r.K.TraceHash
		return o
	}
	// U: the unfiltered run - same files, no -ignore, config without paths, from the repository root
	uArgs := []string{"-format", "{{json .}}", "-no-color", "-shellcheck=", "-pyflakes="}
	for _, f := range lintFiles {
		uArgs = append(uArgs, f)
	}
	if mode == 2 {
		uArgs = uArgs[:5]
	}
	wu := &World{Disk: diskU, Cwd: root, CPUs: 2, API: APIMain, Args: uArgs}
	ru := RunLint(wu, nil, RunOpts{Canonical: true})
	o.addRun(ru.K)
	if v := runFailure("C15", ru.K); v != nil {
		o.probe("unfiltered_run_failed:"+v.Class, 1)
		return o
	}
	if ru.Exit == 3 || ru.Exit == 2 {
		o.probe("unfiltered_run_fatal", 1)
		return o
	}
	U, err := parseJSONDiags(ru.Stdout, root)
	if err != nil {
		o.probe("unfiltered_output_unparsable", 1)
		return o
	}
	// expected
	cliRe := make([]*regexp.Regexp, len(cli))
	for i, p := range cli {
		cliRe[i] = regexp.MustCompile(p)
	}
	var expected []c15Diag
	applicable := map[string][]string{}
	for _, d := range U {
		drop := false
		for _, r := range cliRe {
			if r.MatchString(d.Msg) {
				drop = true
			}
		}
		rel := strings.TrimPrefix(d.Abs, root+"/")
		if sib != "" && strings.HasPrefix(d.Abs, sib+"/") {
			// the second repository's own config: '**/*' -> 'is unknown'
			rel = strings.TrimPrefix(d.Abs, sib+"/")
			applicable["(second repository) "+rel] = []string{"**/*"}
			if strings.Contains(d.Msg, "is unknown") {
				drop = true
			}
			if !drop {
				expected = append(expected, d)
			}
			continue
		}
		if !strings.HasPrefix(d.Abs, root+"/") {
			// a file outside every repository: no configuration applies to it
			if !drop {
				expected = append(expected, d)
			}
			continue
		}
		for _, g := range order {
			ok, _ := doublestar.Match(g, rel)
			if !ok {
				continue
			}
			if !contains(applicable[rel], g) {
				applicable[rel] = append(applicable[rel], g)
			}
			for _, p := range entries[g] {
				if regexp.MustCompile(p).MatchString(d.Msg) {
					drop = true
				}
			}
		}
		if !drop {
			expected = append(expected, d)
		}
	}
	// a last file argument that does not exist: the run is a fatal error whatever the other files
	// and the patterns leave over ("3 for fatal errors")
	missingArg := mode == 0 && c.Weighted("world.missingarg", 1, 10)
	if missingArg {
		w.Args = append(append([]string{}, w.Args...), root+"/.github/workflows/no-such-file.yml")
	}
	// in a multi-file run diagnostics are grouped per file in argument order, which is the order of U as well
	rf := RunLint(w, c, RunOpts{KeepTrace: env.KeepTrace})
	o.addRun(rf.K)
	if env.KeepTrace {
		o.Traces = append(o.Traces, rf.K.Trace)
	}
	o.Nontrivial = len(U) > 0 && (len(expected) != len(U) || cwd != root || spellKind != 0)
	o.Sig = w.Hash()
	o.Sample = map[string]any{"cwd": cwd, "root": root, "args": w.Args, "config": cfg, "unfiltered": len(U), "expected": len(expected), "exit": rf.Exit, "mode": mode}
	if len(expected) != len(U) {
		o.probe("worlds_where_filters_remove_something", 1)
	}
	if len(expected) == 0 && len(U) > 0 {
		o.probe("worlds_where_filters_remove_everything", 1)
	}
	if cwd != root {
		o.probe("runs_from_other_cwd", 1)
	}
	o.Digest = DigestOf(rf.Stdout, rf.Exit)
	if v := runFailure("C15", rf.K); v != nil {
		o.V = v
		return o
	}
	if missingArg {
		o.probe("missing_file_argument_runs", 1)
		if rf.Exit != 3 || strings.TrimSpace(rf.Stderr) == "" {
			o.V = &Violation{Oracle: "exit-status", Class: fmt.Sprintf("fatal-error-exit-%d", rf.Exit),
				Message: fmt.Sprintf("the last file argument does not exist, which is a fatal error, but the exit status is %d (stderr %q); %d diagnostics of the other files remain after filtering", rf.Exit, firstLine(rf.Stderr), len(expected))}
		}
		return o
	}
	if mode == 5 {
		// the repository's configuration exists but cannot be read: which paths entries apply is
		// unknown, so no filtered list can be exact - the only acceptable outcome is a fatal error
		o.probe("unreadable_repository_config_runs", 1)
		if rf.Exit != 3 || strings.TrimSpace(rf.Stderr) == "" {
			o.V = &Violation{Oracle: "exit-status", Class: "unreadable-config-not-fatal",
				Message: fmt.Sprintf("the repository's actionlint.yaml exists but cannot be read (%s); exit status %d, stderr %q: the per-path ignore configuration is silently not applied (or another file's is)", w.Faults[len(w.Faults)-1].Kind, rf.Exit, firstLine(rf.Stderr))}
		}
		return o
	}
	if rf.Exit == 3 || rf.Exit == 2 {
		// the only legitimate fatal here: the cwd is outside any repository in no-argument mode (excluded above)
		o.V = &Violation{Oracle: "exit-status", Class: fmt.Sprintf("unexpected-exit-%d", rf.Exit),
			Message: fmt.Sprintf("the filtered run exited with status %d (stderr: %s) although the same files lint without fatal error unfiltered", rf.Exit, strings.TrimSpace(rf.Stderr))}
		return o
	}
	var got []c15Diag
	if format == 0 {
		got, err = parseJSONDiags(rf.Stdout, cwd)
	} else {
		got, err = parseOnelineDiags(rf.Stdout, cwd)
	}
	if err != nil {
		o.V = &Violation{Oracle: "output-parses", Class: "unparsable-output", Message: "the output of the filtered run does not parse: " + err.Error()}
		return o
	}
	if cwd == "/w/lnk-to-root" {
		// the same files, named through the link: compare them by what they are
		for i := range got {
			got[i].Abs = root + strings.TrimPrefix(got[i].Abs, cwd)
		}
	}
	if mode == 3 {
		// with a failing getwd printed paths are relative to "." = unknown; compare modulo the file name
		for i := range got {
			got[i].Abs = path.Base(got[i].Abs)
		}
		e2 := append([]c15Diag{}, expected...)
		for i := range e2 {
			e2[i].Abs = path.Base(e2[i].Abs)
		}
		expected = e2
	}
	if !c15Equal(got, expected) {
		cls, detail := c15Diff(got, expected)
		var appl []string
		for _, k := range sortedKeys(applicable) {
			appl = append(appl, k+" <- "+strings.Join(applicable[k], ", "))
		}
		o.V = &Violation{Oracle: "exact-filter", Class: cls,
			Message: fmt.Sprintf("the output is not the unfiltered list minus the diagnostics matched by an applicable pattern (cwd=%s, args=%q).\n  -ignore: %q\n  applicable paths entries (by path relative to the repository root %s): %s\n%s", cwd, spelled, cli, root, strings.Join(appl, "; "), detail),
			Detail:  map[string]any{"config": cfg}}
		return o
	}
	wantExit := 0
	if len(expected) > 0 {
		wantExit = 1
	}
	if rf.Exit != wantExit {
		o.V = &Violation{Oracle: "exit-status", Class: fmt.Sprintf("exit-%d-want-%d", rf.Exit, wantExit),
			Message: fmt.Sprintf("%d diagnostics remain after filtering but the exit status is %d", len(expected), rf.Exit)}
	}
	return o
}

func c15Equal(a, b []c15Diag) bool {
	if len(a) != len(b) {
		return false
	}
	for i := range a {
		if a[i] != b[i] {
			return false
		}
	}
	return true
}

func c15Diff(got, want []c15Diag) (class, detail string) {
	cnt := map[c15Diag]int{}
	for _, d := range got {
		cnt[d]++
	}
	for _, d := range want {
		cnt[d]--
	}
	var extra, missing []c15Diag
	for d, n := range cnt {
		for ; n > 0; n-- {
			extra = append(extra, d)
		}
		for ; n < 0; n++ {
			missing = append(missing, d)
		}
	}
	srt := func(ds []c15Diag) {
		sort.Slice(ds, func(i, j int) bool {
			if ds[i].Abs != ds[j].Abs {
				return ds[i].Abs < ds[j].Abs
			}
			if ds[i].Line != ds[j].Line {
				return ds[i].Line < ds[j].Line
			}
			if ds[i].Col != ds[j].Col {
				return ds[i].Col < ds[j].Col
			}
			return ds[i].Msg < ds[j].Msg
		})
	}
	srt(extra)
	srt(missing)
	var b strings.Builder
	pr := func(title string, ds []c15Diag) {
		if len(ds) == 0 {
			return
		}
		b.WriteString("  " + title + "\n")
		for i, d := range ds {
			if i >= 6 {
				fmt.Fprintf(&b, "    ... %d more\n", len(ds)-i)
				break
			}
			fmt.Fprintf(&b, "    %s:%d:%d: %s [%s]\n", d.Abs, d.Line, d.Col, d.Msg, d.Kind)
		}
	}
	pr("reported although an applicable pattern matches (or not in the unfiltered list):", extra)
	pr("filtered out although no applicable pattern matches:", missing)
	switch {
	case len(extra) == 0 && len(missing) == 0:
		return "order-changed", "  the same diagnostics come in a different order\n"
	case len(extra) > 0 && len(missing) > 0:
		return "under-and-over-filtered", b.String()
	case len(extra) > 0:
		return "under-filtered", b.String()
	}
	return "over-filtered", b.String()
}

func contains(xs []string, x string) bool {
	for _, y := range xs {
		if y == x {
			return true
		}
	}
	return false
}
