package harness

import (
	"fmt"
	"sort"
	"strconv"
	"strings"
	"syscall"

	"gopkg.in/yaml.v3"

	"verifsim/sim/kern"
)

// C20 - shellcheck/pyflakes integration loses nothing and bounds concurrency.
//
// The real process.go protocol (semaphore, WaitGroup, errgroup, callbacks,
// mutex around error appends) runs against simulated tools whose latency and
// failure are adversarial choices. Reference model (from the YAML via yaml.v3,
// never from actionlint): effective shell per step, expected invocation
// multiset with sanitised stdin, expected issues per invocation.

type c20 struct{}

func init() { Register(c20{}) }

func (c20) ID() string { return "C20" }

// ---- workload ---------------------------------------------------------------

var c20Scripts = []string{
	"echo hello",
	"echo $FOO ${{ github.sha }} SC2086",
	"echo ${{ github.ref }}${{ github.sha }} SC2001 after two adjacent placeholders",
	"SC2034 ${{ matrix.x }} at start",
	"echo end ${{ env.Y }}",
	"echo \"${{ contains(github.ref, '}}') }}\" SC2116 brace in string",
	"echo unterminated ${{ github.sha SC2086",
	"if ${{ inputs.flag }}; then echo SC2050; fi",
	"echo no placeholder at all SC2164 SC2103",
	"import os PF01\nprint(${{ github.run_id }}) PF02",
	"print('x')",
	"print( PFSYN",
	"x = 1 PFCRLF\ny = 2 PF03",
	// python that starts with a placeholder and ends with the closing braces of a nested literal
	"${{ env.PRELUDE }}\nimport os PF06\nd = {'k': {'v': 1}}",
	"${{ inputs.x }} = {'a': {'b': 2}} PF07 {{}}",
	// closing braces before the first placeholder (a Go template of another tool, a nested literal)
	"docker ps --format '{{.ID}}' SC2046\necho \"${{ github.sha }}\" SC2086",
	"d = {'a': {'b': 1}} PF08\nprint(${{ github.run_id }}) PF09",
	// the same issue printed twice (as with -x for two sourced files): two diagnostics
	"echo twice SC2999",
	// the interpreter prints one very long warning line (longer than any reader's line buffer) before the issues
	"import imp LONGNOISE PF10\nprint(imp) PF11",
	// a launcher prints a progress indicator that ends with \r, not \n: the first issue starts in mid line
	"import re PROGRESSNOISE PF12\nprint(re) PF13",
	// a sparse JSON object for one of the issues (no column, no level)
	"echo sparse SC2998 and $X SC2086",
	// an issue shellcheck locates in the first line of its input (whole-script / parse-level problems)
	"echo whole script problem SC1072",
	"echo $Z SC2086 and SC1091 in one script",
}

var c20MultiLine = []string{
	"for f in *; do\n  echo $f ${{ matrix.x }} SC2086\ndone\necho ${{\n  github.ref\n}} SC2035 after a multi-line placeholder\n",
	"set -x\necho one SC2002\n\necho three ${{ github.event.number }} SC2006\n",
	"import sys PF04\nprint(${{ toJSON(github) }})\nprint(sys.argv) PF05\n",
}

func init() {
	// two scripts of about 20 KiB each (below the 64 KiB of a pipe, above any small-input shortcut)
	pad := strings.Repeat("# padding padding padding padding padding padding padding padding padding\n", 270)
	c20Big = []string{
		"echo $BIG_ONE SC2086\n" + pad + "echo end of the first big script SC2116\n",
		"echo $BIG_TWO SC2086\n" + pad + "echo end of the second big script SC2005\n",
		// about 80 KiB: more than a pipe holds, so whoever feeds the tool's stdin must not wait for it
		// to be taken before the tool runs (long generated scripts - embedded installers, heredocs -
		// are legal input; the property speaks of every run: script)
		"echo $BIG_THREE ${{ github.sha }} SC2086\n" + strings.Repeat(pad, 4) + "echo end of the script that is larger than a pipe SC2116\n",
	}
}

var c20Big []string

var c20Shells = []string{"", "", "", "bash", "sh", "python", "pwsh", "bash -e {0}", "python {0}", "sh -x {0}", "cmd", "bashful", "pythonic", "shx"}

func c20Shell(c *Chooser, label string) string { return c20Shells[c.Int(label, len(c20Shells))] }

func genC20Workflow(c *Chooser, wi int) string {
	var b strings.Builder
	bigWorld := c.Weighted("world.bigscripts", 1, 40) // a workflow with scripts of about 20 KiB
	b.WriteString("on: push\n")
	if s := c20Shell(c, "world.wfshell"); s != "" && c.Weighted("world.haswfshell", 1, 3) {
		fmt.Fprintf(&b, "defaults:\n  run:\n    shell: %s\n", s)
	}
	b.WriteString("jobs:\n")
	njobs := 1 + c.Int("world.njobs", 3)
	for j := 0; j < njobs; j++ {
		fmt.Fprintf(&b, "  w%dj%d:\n", wi, j)
		switch c.Int("world.runson", 7) {
		case 0, 1, 2:
			b.WriteString("    runs-on: ubuntu-latest\n")
		case 3:
			b.WriteString("    runs-on: windows-latest\n")
		case 4:
			b.WriteString("    runs-on: [self-hosted, Windows-2022]\n")
		case 5:
			b.WriteString("    strategy:\n      matrix:\n        os: [ubuntu-latest, windows-latest]\n    runs-on: ${{ matrix.os }}\n")
		case 6:
			b.WriteString("    runs-on:\n      group: g\n      labels: [linux, x64]\n")
		}
		if s := c20Shell(c, "world.jobshell"); s != "" && c.Weighted("world.hasjobshell", 1, 3) {
			fmt.Fprintf(&b, "    defaults:\n      run:\n        shell: %s\n", s)
		} else if c.Weighted("world.jobwdonly", 1, 6) {
			// job defaults that say nothing about the shell: the workflow's default shell still applies
			b.WriteString("    defaults:\n      run:\n        working-directory: sub\n")
		}
		b.WriteString("    steps:\n")
		nsteps := 1 + c.Int("world.nsteps", 4)
		many := false
		if wi == 0 && j == 0 && c.Weighted("world.manysteps", 1, 25) {
			nsteps = 40 + c.Int("world.nsteps2", 30) // a long job: dozens of scripts in one file
			many = true
		}
		for s := 0; s < nsteps; s++ {
			if c.Weighted("world.usesstep", 1, 6) {
				b.WriteString("      - uses: actions/checkout@v4\n")
				continue
			}
			big := bigWorld && c.Weighted("world.bigscript", 1, 3)
			if big || c.Weighted("world.multiline", 1, 3) {
				sc := c20MultiLine[c.Int("world.mscript", len(c20MultiLine))]
				if big {
					sc = c20Big[c.Int("world.bigsel", len(c20Big))]
				}
				b.WriteString("      - run: |\n")
				for _, l := range strings.Split(strings.TrimSuffix(sc, "\n"), "\n") {
					if l == "" {
						b.WriteString("\n")
					} else {
						b.WriteString("          " + l + "\n")
					}
				}
			} else {
				sc := c20Scripts[c.Int("world.script", len(c20Scripts))]
				if strings.Contains(sc, "\n") {
					b.WriteString("      - run: |\n")
					for _, l := range strings.Split(sc, "\n") {
						b.WriteString("          " + l + "\n")
					}
				} else if c.Weighted("world.quoted", 1, 4) {
					fmt.Fprintf(&b, "      - run: '%s'\n", strings.ReplaceAll(sc, "'", "''"))
				} else {
					// a plain scalar must not contain ": " or " #" or start with special characters
					if strings.ContainsAny(sc[:1], "\"'[]{}>|*&!%@`") || strings.Contains(sc, ": ") || strings.Contains(sc, " #") {
						fmt.Fprintf(&b, "      - run: '%s'\n", strings.ReplaceAll(sc, "'", "''"))
					} else {
						fmt.Fprintf(&b, "      - run: %s\n", sc)
					}
				}
			}
			if many && !c.Weighted("world.manyshell", 1, 8) {
				continue // most steps of the long job use the job's shell
			}
			if s := c20Shell(c, "world.stepshell"); s != "" {
				if c.Weighted("world.shellfirst", 1, 4) {
					// the same step with its keys in the other order: shell: before run:
					txt := b.String()
					at := strings.LastIndex(txt, "      - run:")
					b.Reset()
					b.WriteString(txt[:at])
					fmt.Fprintf(&b, "      - shell: %s\n        %s", s, txt[at+len("      - "):])
				} else {
					fmt.Fprintf(&b, "        shell: %s\n", s)
				}
			}
		}
	}
	return b.String()
}

// ---- reference model -----------------------------------------------------------

type c20Inv struct {
	Shell  string // shellcheck: the dialect the script must be checked as
	Tool   string
	Stdin  string
	File   string // absolute workflow path
	Line   int    // position of the step's run: key
	Col    int
	Issues []ToolIssue
}

func mapGet(n *yaml.Node, key string) *yaml.Node {
	if n == nil || n.Kind != yaml.MappingNode {
		return nil
	}
	for i := 0; i+1 < len(n.Content); i += 2 {
		if n.Content[i].Value == key {
			return n.Content[i+1]
		}
	}
	return nil
}

func mapKey(n *yaml.Node, key string) *yaml.Node {
	if n == nil || n.Kind != yaml.MappingNode {
		return nil
	}
	for i := 0; i+1 < len(n.Content); i += 2 {
		if n.Content[i].Value == key {
			return n.Content[i]
		}
	}
	return nil
}

func scalarOf(n *yaml.Node) (string, bool) {
	if n == nil || n.Kind != yaml.ScalarNode {
		return "", false
	}
	return n.Value, true
}

// sanitiseScript: scanning left to right, each "${{" up to and including the
// next "}}" is replaced by the same number of "_"; an unterminated "${{" and
// everything after it is left as is.
func sanitiseScript(s string) string {
	var b strings.Builder
	for {
		i := strings.Index(s, "${{")
		if i < 0 {
			break
		}
		j := strings.Index(s[i:], "}}")
		if j < 0 {
			break
		}
		b.WriteString(s[:i])
		b.WriteString(strings.Repeat("_", j+2))
		s = s[i+j+2:]
	}
	b.WriteString(s)
	return b.String()
}

// c20Model lists the invocations the property requires for one workflow.
func c20Model(file, text string, haveSC, havePF bool) ([]c20Inv, error) {
	var doc yaml.Node
	if err := yaml.Unmarshal([]byte(text), &doc); err != nil || len(doc.Content) != 1 {
		return nil, fmt.Errorf("generated workflow does not parse: %v", err)
	}
	top := doc.Content[0]
	wfShell, _ := scalarOf(mapGet(mapGet(mapGet(top, "defaults"), "run"), "shell"))
	jobs := mapGet(top, "jobs")
	var out []c20Inv
	if jobs == nil || jobs.Kind != yaml.MappingNode {
		return nil, nil
	}
	for i := 0; i+1 < len(jobs.Content); i += 2 {
		job := jobs.Content[i+1]
		jobShell, _ := scalarOf(mapGet(mapGet(mapGet(job, "defaults"), "run"), "shell"))
		// runner default: pwsh when any literal label is windows or windows-*
		runnerShell := ""
		var labels []string
		ro := mapGet(job, "runs-on")
		collect := func(n *yaml.Node) {
			if n == nil {
				return
			}
			switch n.Kind {
			case yaml.ScalarNode:
				labels = append(labels, n.Value)
			case yaml.SequenceNode:
				for _, x := range n.Content {
					if x.Kind == yaml.ScalarNode {
						labels = append(labels, x.Value)
					}
				}
			}
		}
		if ro != nil && ro.Kind == yaml.MappingNode {
			collect(mapGet(ro, "labels"))
		} else {
			collect(ro)
		}
		for _, l := range labels {
			ll := strings.ToLower(l)
			if ll == "windows" || strings.HasPrefix(ll, "windows-") {
				runnerShell = "pwsh"
			}
		}
		steps := mapGet(job, "steps")
		if steps == nil || steps.Kind != yaml.SequenceNode {
			continue
		}
		for _, st := range steps.Content {
			run, ok := scalarOf(mapGet(st, "run"))
			if !ok {
				continue
			}
			key := mapKey(st, "run")
			stepShell, hasStep := scalarOf(mapGet(st, "shell"))
			// shellcheck: step > job default > workflow default > runner default > bash
			sh := "bash"
			switch {
			case hasStep:
				sh = stepShell
			case jobShell != "":
				sh = jobShell
			case wfShell != "":
				sh = wfShell
			case runnerShell != "":
				sh = runnerShell
			}
			script := sanitiseScript(run)
			if haveSC {
				var which string
				switch {
				case sh == "bash" || strings.HasPrefix(sh, "bash "):
					which = "bash"
				case sh == "sh" || strings.HasPrefix(sh, "sh "):
					which = "sh"
				}
				if which != "" {
					setup := "set -e\n"
					if which == "bash" {
						setup = "set -eo pipefail\n"
					}
					stdin := setup + script + "\n"
					out = append(out, c20Inv{Shell: which, Tool: "shellcheck", Stdin: stdin, File: file, Line: key.Line, Col: key.Column, Issues: ScanIssues("shellcheck", stdin)})
				}
			}
			if havePF {
				// python: step > job default > workflow default (there is no python runner default)
				py := ""
				switch {
				case hasStep:
					py = stepShell
				case jobShell != "":
					py = jobShell
				default:
					py = wfShell
				}
				if py == "python" || strings.HasPrefix(py, "python ") {
					out = append(out, c20Inv{Tool: "pyflakes", Stdin: script, File: file, Line: key.Line, Col: key.Column, Issues: ScanIssues("pyflakes", script)})
				}
			}
		}
	}
	return out, nil
}

// ---- evaluation -----------------------------------------------------------------

func (c20) Eval(c *Chooser, env *Env) *Outcome {
	o := &Outcome{}
	withFaults := env.Variant == "faults"
	disk := kern.NewDisk()
	root := "/w/app"
	disk.MkdirAll(root + "/.git")
	nfiles := 1 + c.Int("world.nfiles", 4)
	if c.Weighted("world.manyfiles", 1, 8) {
		nfiles = 5 + c.Int("world.nfiles2", 2)
	}
	var files []string
	texts := map[string]string{}
	for i := 0; i < nfiles; i++ {
		p := fmt.Sprintf("%s/.github/workflows/f%d.yml", root, i)
		t := genC20Workflow(c, i)
		disk.Put(p, []byte(t))
		files = append(files, p)
		texts[p] = t
	}
	// sometimes the last argument belongs to a second repository whose configuration cannot be
	// loaded: the run is fatal, and still nothing may be left running when the call returns
	brokenRepo := len(files) >= 2 && c.Weighted("world.brokenrepo", 1, 8)
	if brokenRepo {
		disk.MkdirAll("/w/broken/.git")
		disk.Put("/w/broken/.github/actionlint.yaml", []byte("self-hosted-runner: 1\n"))
		p := "/w/broken/.github/workflows/x.yml"
		t := genC20Workflow(c, 9)
		disk.Put(p, []byte(t))
		files = append(files, p)
		texts[p] = t
	}
	// or the last argument is a directory (somebody passed .github/workflows itself): reading it fails,
	// the run is fatal, and again nothing may be left running when the call returns
	dirArg := ""
	if !brokenRepo && len(files) >= 2 && c.Weighted("world.dirarg", 1, 10) {
		dirArg = root + "/.github/workflows"
		files = append(files, dirArg)
		brokenRepo = true
	}
	tools := &Tools{Missing: map[string]bool{}, Faults: map[string]ToolFault{}, Errno: map[string]int64{}}
	haveSC, havePF := true, true
	switch c.Int("world.tools", 6) {
	case 1:
		havePF = false
	case 2:
		haveSC = false
	case 3:
		tools.Missing["pyflakes"] = true // enabled but not installed: the rule is disabled with a log
		havePF = false
	}
	if !withFaults && c.Weighted("world.earlyexit", 1, 12) {
		// one of the tools is a wrapper that does not wait for the end of its input
		tools.EarlyExit = map[string]bool{[]string{"shellcheck", "pyflakes"}[c.Int("world.earlyexittool", 2)]: true}
	}
	cwd := root
	if c.Weighted("world.cwdparent", 1, 6) {
		cwd = "/w" // linting from the parent directory of the repository
	}
	w := &World{Disk: disk, Cwd: cwd, CPUs: []int{2, 1, 4, 16, 3}[c.Int("world.cpus", 5)], API: APIFiles, Tools: tools, Note: "C20 tool integration"}
	for _, f := range files {
		if strings.HasPrefix(f, cwd+"/") {
			w.Files = append(w.Files, strings.TrimPrefix(f, cwd+"/"))
		} else {
			w.Files = append(w.Files, f)
		}
	}
	if haveSC {
		w.Opts.Shellcheck = "shellcheck"
		if c.Weighted("world.toolcmdline", 1, 4) {
			w.Opts.Shellcheck = "shellcheck --severity=style" // a command line instead of an executable name
		} else if c.Weighted("world.toolpathblank", 1, 6) {
			w.Opts.Shellcheck = "/opt/my tools/shellcheck" // an executable whose path contains a blank
		} else if c.Weighted("world.toolpathrel", 1, 6) {
			w.Opts.Shellcheck = "./tools/bin/shellcheck" // a path relative to the working directory
		}
	}
	if c.Weighted("world.gomaxprocs", 1, 4) {
		w.GoMaxProcs = w.CPUs * (2 + c.Int("world.gmpfactor", 2)) // GOMAXPROCS above the number of CPUs
	}
	if havePF || tools.Missing["pyflakes"] {
		w.Opts.Pyflakes = "pyflakes"
		if havePF && c.Weighted("world.pytoolpathblank", 1, 8) {
			w.Opts.Pyflakes = "/opt/my tools (x86)/pyflakes"
		}
	}
	if len(files) == 1 && c.Bool("world.singleapi") {
		w.API = APIFile
	}
	viaMain := c.Weighted("world.viamain", 1, 4)
	if viaMain {
		// the same run through the command line: flags instead of options, JSON output parsed back
		w.API = APIMain
		w.Args = []string{"-format", "{{json .}}", "-no-color", "-shellcheck=" + w.Opts.Shellcheck, "-pyflakes=" + w.Opts.Pyflakes}
		w.Args = append(w.Args, w.Files...)
	}
	if !viaMain {
		// (through the command line the log shares stderr with the fatal error, which is compared)
		ApplyLogLevel(c, w)
	}
	if !viaMain && c.Weighted("world.ruleshook", 1, 8) {
		// a library user's OnRulesCreated hook reorders or prunes the rule list: the tool rules come first
		w.Opts.RulesHook = []string{"tools-first", "tools-only"}[c.Int("world.ruleshookkind", 2)]
		o.probe("rules_hook", 1)
	}
	o.World = w
	// reference model
	var expect []c20Inv
	for _, f := range files {
		if f == dirArg {
			continue
		}
		inv, err := c20Model(f, texts[f], haveSC, havePF)
		if err != nil {
			o.probe("generator_yaml_error", 1)
			return o
		}
		expect = append(expect, inv...)
	}
	// fault plan over the expected invocations
	var faulted []string
	fatalExpected := false
	unlisted := false
	if withFaults && len(expect) > 0 && c.Weighted("fault.busyonce", 1, 10) {
		// the executable of a tool is being replaced while the run starts: the first attempt to
		// start it fails (ETXTBSY), whichever script that is - a tool that cannot be started
		tool := expect[c.Int("fault.busytool", len(expect))].Tool
		tools.BusyOnce = map[string]bool{tool: true}
		faulted = append(faulted, fmt.Sprintf("%s@first-start=%s", tool, TFBusyOnce))
		fatalExpected = true
	} else if withFaults && len(expect) > 0 {
		n := 1 + c.Int("fault.n", 2)
		for i := 0; i < n; i++ {
			e := expect[c.Int("fault.inv", len(expect))]
			kinds := []ToolFault{TFCannotStart, TFKilled, TFKilledOutput, TFNonzeroEmpty, TFEpipe, TFExit137}
			if e.Tool == "shellcheck" {
				kinds = append(kinds, TFGarbage, TFEmptyOK, TFJSONGarbage, TFNullElement)
			} else {
				kinds = append(kinds, TFNoNewline)
			}
			k := kinds[c.Int("fault.kind", len(kinds))]
			if c.Weighted("fault.flood", 1, 60) {
				k = TFFlood
			}
			if k == TFNullElement || k == TFNoNewline || k == TFFlood {
				// output shapes the property does not list (a JSON array holding null, a pyflakes line cut
				// off before its newline): whether they are fatal is not specified; everything else - no
				// deadlock, the process bound, collection before return - still is
				unlisted = true
			}
			key := InvKey(e.Tool, e.Stdin)
			tools.Faults[key] = k
			if k == TFCannotStart {
				tools.Errno[key] = []int64{int64(syscall.ENOENT), int64(syscall.EACCES), int64(syscall.EAGAIN)}[c.Int("fault.errno", 3)]
			}
			faulted = append(faulted, fmt.Sprintf("%s@%s:%d=%s", e.Tool, strings.TrimPrefix(e.File, root+"/"), e.Line, k))
			fatalExpected = true
		}
	}

	ro := RunOpts{KeepTrace: env.KeepTrace}
	var priorInv []c20Inv
	if !withFaults && !viaMain && !brokenRepo && c.Weighted("world.secondcall", 1, 6) {
		// a long-lived Linter (an editor integration, a server): the measured call is the second one
		// on the instance; the first linted one other file - without scripts, or with one bash and one
		// python script of its own - and whatever it left behind (process manager, semaphore, rule
		// state) must not cost the second call an invocation or a diagnostic
		pp := root + "/.github/workflows/zz-earlier.yml"
		pt := "on: push\njobs:\n  earlier:\n    runs-on: ubuntu-latest\n    steps:\n      - uses: actions/checkout@v4\n"
		if c.Bool("world.secondcallscripts") {
			pt += "      - run: echo $EARLIER_CALL SC2086\n      - run: import earlier PF01\n        shell: python\n"
		}
		disk.Put(pp, []byte(pt))
		var err error
		if priorInv, err = c20Model(pp, pt, haveSC, havePF); err != nil {
			o.probe("generator_yaml_error", 1)
			return o
		}
		ro.ReuseLinter, ro.PriorFile = true, pp
		o.probe("second_call_on_one_linter", 1)
	}
	if !withFaults && !viaMain && !brokenRepo && !ro.ReuseLinter && w.API == APIFiles && len(w.Files) >= 2 && c.Weighted("world.twoclients", 1, 8) {
		// an embedding program with two lint calls in flight at once: two Linters (created one after the
		// other), each with one half of the files, on tasks of their own. Every script still goes to its
		// tool exactly once, every issue becomes a diagnostic, nothing deadlocks; the process bound is a
		// bound per call and is not checked across the two.
		w.TwoClients = true
		o.probe("two_lint_calls_in_flight", 1)
	}
	res := RunLint(w, c, ro)
	o.addRun(res.K)
	if env.KeepTrace {
		o.Traces = append(o.Traces, res.K.Trace)
	}
	if viaMain {
		mainToLib(res, cwd)
	}
	c20Rebase(res, cwd, root)
	k := res.K
	o.Nontrivial = len(expect) >= 2 && k.MaxRunnable >= 2
	o.Sig = w.Hash() ^ k.TraceHash
	o.Sample = map[string]any{"files": w.Files, "cpus": w.CPUs, "expected_invocations": len(expect), "actual_invocations": len(k.Invocations), "max_concurrent_processes": k.MaxProcs,
		"faults": faulted, "fatal": res.Fatal, "simulated_time": k.SimTime.String(), "tasks": k.Tasks, "kernel_steps": k.Steps, "workflow_0": texts[files[0]]}
	o.probe("tool_invocations", len(k.Invocations))
	if k.MaxProcs >= 2 {
		o.probe("runs_with_concurrent_tool_processes", 1)
	}
	for _, f := range faulted {
		kind := f[strings.LastIndex(f, "=")+1:]
		if o.Faults == nil {
			o.Faults = map[string]int{}
		}
		o.Faults["tool-"+kind]++
	}
	o.Digest = DigestOf(res.Errs, res.Fatal != "", len(k.Invocations))
	if v := runFailure("C20", k); v != nil {
		o.V = v
		return o
	}
	// (c) never more tool processes at once than the machine has CPUs
	if k.ProcBoundViolated != "" && !w.TwoClients {
		o.V = &Violation{Oracle: "process-bound", Class: "more-processes-than-cpus", Message: k.ProcBoundViolated}
		return o
	}
	// (d) everything finished and collected before results are returned
	// (a task that only has its own exit left when the call returns has finished its work)
	if k.WorkAfterRoot > 0 || k.ProcsAtRootReturn > 0 {
		cls := "returned-with-live-work"
		if res.Fatal != "" {
			cls = "returned-error-with-live-work"
		}
		o.V = &Violation{Oracle: "collected-before-return", Class: cls,
			Message: fmt.Sprintf("the lint call returned (fatal=%q) while %d tool processes were still running; after the return other tasks still performed %d operations: %s", res.Fatal, k.ProcsAtRootReturn, k.WorkAfterRoot, strings.Join(k.OpsAfterRoot, ", "))}
		return o
	}
	for _, inv := range k.Invocations {
		if inv.StartErr == 0 && !inv.Waited {
			o.V = &Violation{Oracle: "collected-before-return", Class: "process-not-waited",
				Message: fmt.Sprintf("process p%d (%s) was started but never waited for", inv.Pid, strings.Join(inv.Argv, " "))}
			return o
		}
	}
	// (a) invocations: exactly once each (fault-free); with faults: subset, nothing foreign
	want := map[string]int{}
	for _, e := range expect {
		want[InvKey(e.Tool, e.Stdin)]++
	}
	for _, e := range priorInv {
		want[InvKey(e.Tool, e.Stdin)]++ // the earlier call's own invocations are in the kernel's list too
	}
	got := map[string]int{}
	stdinOf := map[string]string{}
	startFailedEmpty := map[string]bool{}
	for _, inv := range k.Invocations {
		key := InvKey(toolOf(inv.Argv), inv.Stdin)
		got[key]++
		stdinOf[key] = inv.Stdin
		if inv.StartErr != 0 {
			// a process that could not be started never read its stdin: when only a part of the script
			// (or nothing) was in the pipe by then, there is nothing to compare
			for _, e := range expect {
				if e.Tool == toolOf(inv.Argv) && len(inv.Stdin) < len(e.Stdin) && strings.HasPrefix(e.Stdin, inv.Stdin) {
					startFailedEmpty[key] = true
				}
			}
		}
	}
	// the dialect passed to shellcheck is the effective shell of the step
	wantShell := map[string]string{}
	for _, e := range expect {
		if e.Tool == "shellcheck" {
			wantShell[InvKey(e.Tool, e.Stdin)] = e.Shell
		}
	}
	for _, inv := range k.Invocations {
		if toolOf(inv.Argv) != "shellcheck" {
			continue
		}
		if ws, ok := wantShell[InvKey("shellcheck", inv.Stdin)]; ok && shellArg(inv.Argv) != ws {
			o.V = &Violation{Oracle: "invocations", Class: "wrong-shell-dialect",
				Message: fmt.Sprintf("a script whose effective shell is %s was passed to shellcheck with --shell %s: %q stdin=%q", ws, shellArg(inv.Argv), strings.Join(inv.Argv, " "), inv.Stdin)}
			return o
		}
	}
	for key, n := range got {
		if want[key] == 0 && startFailedEmpty[key] {
			continue // a process that could not be started before anything was written to its stdin: nothing to compare
		}
		if want[key] == 0 {
			o.V = &Violation{Oracle: "invocations", Class: "foreign-invocation",
				Message: fmt.Sprintf("a tool was run %d time(s) with an input the property does not call for (wrong shell decision or wrong placeholder sanitising): %s stdin=%q", n, key[:strings.Index(key, ":")], stdinOf[key])}
			return o
		}
		if n > want[key] {
			o.V = &Violation{Oracle: "invocations", Class: "duplicate-invocation",
				Message: fmt.Sprintf("a script was passed to %s %d times, expected %d: stdin=%q", key[:strings.Index(key, ":")], n, want[key], stdinOf[key])}
			return o
		}
	}
	if brokenRepo {
		if res.Fatal == "" {
			o.V = &Violation{Oracle: "no-fatal", Class: "unloadable-config-not-fatal", Message: "the configuration of the last argument's repository cannot be loaded (or the last argument is a directory: " + dirArg + ") but the call returned a normal result"}
		}
		return o
	}
	if unlisted {
		return o
	}
	if fatalExpected {
		// an injected failure of a listed kind must surface as a fatal error
		if res.Fatal != "" && len(tools.Faults) == 1 && !kern.RaceLane {
			// exactly one invocation of the whole run fails: the fatal error is then a function of
			// the inputs (which script failed, in which file) and must not depend on the schedule
			for key := range tools.Faults {
				if want[key] == 1 {
					r0 := RunLint(w, nil, RunOpts{Canonical: true})
					o.addRun(r0.K)
					if viaMain {
						mainToLib(r0, cwd)
					}
					c20Rebase(r0, cwd, root)
					if runFailure("C20", r0.K) == nil && r0.Fatal != "" && r0.Fatal != res.Fatal {
						o.V = &Violation{Oracle: "schedule-independent-output", Class: "fatal-error-differs",
							Message: fmt.Sprintf("one tool invocation fails (%s); the fatal error returned depends on the schedule.\n  canonical run: %s\n  this run:      %s", strings.Join(faulted, ", "), r0.Fatal, res.Fatal)}
						return o
					}
					o.probe("single_failure_fatal_text_compared", 1)
				}
			}
		}
		if res.Fatal == "" {
			o.V = &Violation{Oracle: "tool-failure-is-fatal", Class: "failure-not-fatal:" + strings.Join(faultKinds(faulted), "+"),
				Message: "a tool invocation failed (" + strings.Join(faulted, ", ") + ") but the lint call returned a normal result: diagnostics of that script are silently lost"}
		}
		return o
	}
	if res.Fatal != "" {
		o.V = &Violation{Oracle: "no-fatal", Class: "fatal-without-fault", Message: "no tool failure was injected but the lint call returned a fatal error: " + res.Fatal}
		return o
	}
	for _, e := range expect {
		key := InvKey(e.Tool, e.Stdin)
		if got[key] < want[key] {
			o.V = &Violation{Oracle: "invocations", Class: "missing-invocation",
				Message: fmt.Sprintf("the run: script at %s:%d:%d has effective shell for %s but was passed to it %d time(s), expected %d. expected stdin=%q", strings.TrimPrefix(e.File, root+"/"), e.Line, e.Col, e.Tool, got[key], want[key], e.Stdin)}
			return o
		}
	}
	// (b) every issue the tool printed is exactly one diagnostic at that step's run: key
	type pos struct {
		file      string
		line, col int
		kind      string
	}
	gotDiag := map[pos][]string{}
	for _, e := range res.Errs {
		if e.Kind == "shellcheck" || e.Kind == "pyflakes" {
			p := pos{e.File, e.Line, e.Col, e.Kind}
			gotDiag[p] = append(gotDiag[p], e.Msg)
		}
	}
	wantDiag := map[pos][]ToolIssue{}
	for _, e := range expect {
		p := pos{strings.TrimPrefix(e.File, root+"/"), e.Line, e.Col, e.Tool}
		wantDiag[p] = append(wantDiag[p], e.Issues...)
		if _, ok := gotDiag[p]; !ok {
			gotDiag[p] = nil
		}
	}
	var keys []pos
	for p := range gotDiag {
		keys = append(keys, p)
	}
	sort.Slice(keys, func(i, j int) bool {
		a, b := keys[i], keys[j]
		if a.file != b.file {
			return a.file < b.file
		}
		if a.line != b.line {
			return a.line < b.line
		}
		return a.kind < b.kind
	})
	for _, p := range keys {
		msgs, issues := gotDiag[p], wantDiag[p]
		if len(msgs) != len(issues) {
			o.V = &Violation{Oracle: "issues-to-diagnostics", Class: fmt.Sprintf("%s-diagnostic-count", p.kind),
				Message: fmt.Sprintf("%s printed %d issue(s) for the script at %s:%d:%d but %d %s diagnostic(s) are reported there.\n  issues: %+v\n  diagnostics: %q", p.kind, len(issues), p.file, p.line, p.col, len(msgs), p.kind, issues, msgs)}
			return o
		}
		used := make([]bool, len(msgs))
		for _, is := range issues {
			line := is.Line
			if is.Tool == "shellcheck" {
				line-- // the first line of stdin is the implicit `set -e...` line: offsets refer to the user's script
			}
			// the wording of the diagnostic is not part of the property: it has to carry the issue's
			// code and its (valid) line and column as numbers, in whatever layout
			needle1 := is.Code
			if is.Code == "PFCRLF" {
				needle1 = "marker PFCRLF"
			}
			found := false
			for i, m := range msgs {
				// (the sparse report of SC2998 carries no column)
				if !used[i] && strings.Contains(m, needle1) && hasInt(m, line) && (is.Code == "SC2998" || hasInt(m, is.Col)) && !strings.ContainsAny(m, "\r\n") {
					used[i], found = true, true
					break
				}
			}
			if !found {
				o.V = &Violation{Oracle: "issues-to-diagnostics", Class: p.kind + "-issue-lost-or-shifted",
					Message: fmt.Sprintf("issue %s at script position %d:%d printed by %s for the script at %s:%d:%d has no matching diagnostic (offsets must stay valid).\n  diagnostics there: %q", is.Code, line, is.Col, p.kind, p.file, p.line, p.col, msgs)}
				return o
			}
		}
	}
	o.probe("issues_checked", len(res.Errs))
	if kern.RaceLane {
		return o
	}
	// (b2) the whole result is independent of tool latency, completion order and schedule:
	// identical to the canonical run (zero latency, non-preemptive, identity map order)
	r0 := RunLint(w, nil, RunOpts{Canonical: true})
	o.addRun(r0.K)
	if viaMain {
		mainToLib(r0, cwd)
	}
	c20Rebase(r0, cwd, root)
	if runFailure("C20", r0.K) == nil && r0.Fatal == "" {
		if what, cls := firstDiff(cmpOf(r0), cmpOf(res)); what != "" {
			o.V = &Violation{Oracle: "schedule-independent-output", Class: "tools:" + cls,
				Message: "with the integrations enabled the diagnostics depend on tool latency / completion order / schedule.\n  " + what}
			return o
		}
	}
	return o
}

// hasInt reports whether the decimal number n occurs in s as a number of its own
// (not as part of a longer run of digits).
func hasInt(s string, n int) bool {
	d := strconv.Itoa(n)
	for i := 0; ; {
		j := strings.Index(s[i:], d)
		if j < 0 {
			return false
		}
		a, b := i+j, i+j+len(d)
		if (a == 0 || s[a-1] < '0' || s[a-1] > '9') && (b == len(s) || s[b] < '0' || s[b] > '9') {
			return true
		}
		i = a + 1
	}
}

// c20Rebase renames the files of the diagnostics relative to the repository root when the run
// had another working directory.
func c20Rebase(res *LintResult, cwd, root string) {
	if cwd == root {
		return
	}
	pre := strings.TrimPrefix(root, cwd+"/") + "/"
	for i := range res.Errs {
		res.Errs[i].File = strings.TrimPrefix(res.Errs[i].File, pre)
	}
}

func faultKinds(faulted []string) []string {
	set := map[string]bool{}
	for _, f := range faulted {
		set[f[strings.LastIndex(f, "=")+1:]] = true
	}
	return sortedKeys(set)
}

// mainToLib turns the result of a Command.Main run with -format '{{json .}}' into the shape of a
// library run: diagnostics parsed back from stdout, a fatal error from exit status 3.
func mainToLib(res *LintResult, cwd string) {
	if res.Exit == 3 {
		res.Fatal = strings.TrimSpace(res.Stderr)
		if res.Fatal == "" {
			res.Fatal = "exit status 3"
		}
		return
	}
	ds, err := parseJSONDiags(res.Stdout, cwd)
	if err != nil {
		res.Fatal = "unparsable output: " + err.Error()
		return
	}
	res.Errs = nil
	for _, d := range ds {
		res.Errs = append(res.Errs, ErrRec{File: strings.TrimPrefix(d.Abs, cwd+"/"), Line: d.Line, Col: d.Col, Kind: d.Kind, Msg: d.Msg})
	}
}
