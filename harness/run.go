package harness

import (
	"bytes"
	"encoding/json"
	"errors"
	"fmt"
	"hash/fnv"
	"io"
	"os"
	"sort"
	"strings"
	"sync"
	"time"

	"github.com/rhysd/actionlint"

	"verifsim/sim/kern"
	"verifsim/sim/simrt"
	"verifsim/sim/simsync"
)

// Sites is the simgen report of the build this worker was compiled from.
type SitesReport struct {
	Dir         string   `json:"dir"`
	Sites       []string `json:"sites"`
	Native      []string `json:"native"`
	GoStmts     int      `json:"go_stmts"`
	GoApprox    int      `json:"go_approx"`
	Unsupported []string `json:"unsupported"`
	Vars        int      `json:"package_vars"`
	TypeErrors  []string `json:"type_errors"`
	Files       int      `json:"files"`
	Rewritten   int      `json:"rewritten"`
}

// Sites is loaded by the worker at start.
var Sites SitesReport

// LoadSites reads sites.json.
func LoadSites(path string) error {
	b, err := os.ReadFile(path)
	if err != nil {
		return err
	}
	return json.Unmarshal(b, &Sites)
}

// SiteExercise counts, per site, the runs in which it iterated >= 2 keys in a non-identity mode.
var SiteExercise [1024]int

// MapModes is the number of alternatives of a maporder choice: 0 identity,
// 1 reversed, 2 rotated, 3.. permutations.
const MapModes = 7

// ApplyMapOrder draws one mode per instrumented site and installs it.
func ApplyMapOrder(c *Chooser) (nonIdentity []string) {
	simrt.ResetModes()
	for i, s := range Sites.Sites {
		m := c.Choose("maporder."+s, MapModes)
		if m != 0 {
			simrt.SetMode(i, uint32(m))
			nonIdentity = append(nonIdentity, fmt.Sprintf("%s=%d", s, m))
		}
	}
	return
}

// API selects the entry point of actionlint a run uses.
type API string

const (
	APIMain  API = "main"  // Command.Main(args): flags, stdout, stderr, exit status
	APIFiles API = "files" // Linter.LintFiles(files, nil)
	APIFile  API = "file"  // Linter.LintFile(files[0], nil)
	APIRepo  API = "repo"  // Linter.LintRepository(dir)
	APIMem   API = "mem"   // Linter.Lint(path, content, nil) per file, the content handed over in one buffer the caller reuses
)

// Options mirrors the LinterOptions the harness varies.
type Options struct {
	Oneline    bool     `json:"oneline,omitempty"`
	Format     string   `json:"format,omitempty"`
	Ignore     []string `json:"ignore,omitempty"`
	Shellcheck string   `json:"shellcheck,omitempty"`
	Pyflakes   string   `json:"pyflakes,omitempty"`
	ConfigFile string   `json:"config_file,omitempty"`
	Verbose    bool     `json:"verbose,omitempty"`
	Debug      bool     `json:"debug,omitempty"`
	// RulesHook selects a LinterOptions.OnRulesCreated hook: "tools-first" moves the shellcheck and
	// pyflakes rules to the front of the list, "tools-only" keeps only them.
	RulesHook  string `json:"rules_hook,omitempty"`
	WorkingDir string `json:"working_dir,omitempty"` // LinterOptions.WorkingDir (may differ from the process cwd)
}

// World is everything outside the code under test for one run.
type World struct {
	Disk       *kern.Disk
	Cwd        string
	CPUs       int
	GoMaxProcs int // 0 = same as CPUs
	API        API
	Args       []string // APIMain: command line after the program name
	Files      []string // library APIs
	Opts       Options
	Stdin      string
	StdinR     io.Reader // when set, used instead of Stdin (faulty readers)
	// StdoutFailAt > 0: the output writer (Command.Stdout / the Linter's out) fails like a closed
	// pipe once StdoutFailAt-1 bytes have been written (not for shared Linters)
	StdoutFailAt int
	// MemPrior, with APIMem: before each file is linted the caller's buffer held (and another Linter
	// linted) a text of the same length whose lines begin elsewhere - what an editor integration
	// that re-lints a changing document out of one buffer does
	MemPrior bool
	// TwoClients: an embedding program with two lint calls in flight at once - two Linters, created
	// one after the other, each then linting one half of Files on a task of its own (APIFiles only)
	TwoClients bool
	afterNew   func() // called right after NewLinter returned (not for shared Linters)
	// LogFailAt > 0: the log writer (Command.Stderr / LinterOptions.LogWriter) fails like a full
	// disk once LogFailAt-1 bytes have been written (not for shared Linters)
	LogFailAt int
	Tools     kern.ToolModel
	Faults    []kern.Fault
	Note      string // free-text description of how the world was generated
}

// ErrRec is a diagnostic, by value.
type ErrRec struct {
	File string `json:"file"`
	Line int    `json:"line"`
	Col  int    `json:"col"`
	Kind string `json:"kind"`
	Msg  string `json:"msg"`
}

func (e ErrRec) String() string {
	return fmt.Sprintf("%s:%d:%d: %s [%s]", e.File, e.Line, e.Col, e.Msg, e.Kind)
}

// LintResult is what a simulated lint run produced.
type LintResult struct {
	Stdout string
	Stderr string
	Exit   int // APIMain only; library APIs: 3 when Fatal != "", else 1/0 by len(Errs)
	Errs   []ErrRec
	Fatal  string
	K      *kern.Result
	// map-order exercise of this run
	SitesHit   int    // instrumented sites that iterated a map with >= 2 keys
	SitesMulti int    // ... while in a non-identity mode
	ModeSig    uint64 // digest of the non-identity modes installed
	// Linter is the (last) Linter instance used by a library-API run, for post-run inspection.
	Linter *actionlint.Linter
	// LogWriteFailures counts the writes the failing log writer refused (World.LogFailAt)
	LogWriteFailures int
}

// RunOpts are per-run simulator settings.
type RunOpts struct {
	Canonical bool // identity map order, non-preemptive, zero latency, no choices consumed
	KeepTrace bool
	MaxSteps  int
	// Repeat > 1 executes the lint that many times in one process/run and
	// reports the last execution (state carried between executions shows up as a difference).
	Repeat int
	// EpochOffset shifts the wall-clock instant of simulated time zero (seconds).
	EpochOffset int64
	// ReuseLinter makes the repeated executions use one Linter instance (library APIs only).
	ReuseLinter bool
	// PriorRepo, with ReuseLinter, makes the Linter instance lint that repository
	// (LintRepository) before the run proper: another history of the same instance.
	PriorRepo string
	// PriorFile, with ReuseLinter, makes the Linter instance lint that single file (LintFile) first.
	PriorFile string
	// PriorHideDir, with PriorFile: that directory (a repository's .git) does not exist yet while the
	// earlier call runs - the repository is initialised between the two calls.
	PriorHideDir string
	// PriorArgs, with ReuseLinter and the command line entry point, makes the same Command object
	// run Main with these arguments first.
	PriorArgs []string
	// PriorOutFail, with PriorRepo or PriorFile, makes the output writer of the shared Linter fail
	// (as a closed pipe or a full disk does) after PriorOutFail-1 bytes during that earlier call;
	// the writer is healthy again for the call that is measured.
	PriorOutFail int
	// ToolMoves: 1 - the tools' copies in /usr/bin are gone (others in /usr/local/bin are on PATH) for
	// the whole run; 2 - they disappear after the earlier call(s) of a shared Linter, before the
	// measured one (an upgrade while an editor integration keeps running)
	ToolMoves int
	// After, when set, runs inside the simulation after the lint returned.
	After func()
}

// lockedWriter is the log writer handed to actionlint: like os.Stderr (what the CLI passes) it is
// safe for concurrent use. Whether a caller's LogWriter must be goroutine-safe is not stated by
// any property, so the harness does not decide it.
type lockedWriter struct {
	mu sync.Mutex
	b  *bytes.Buffer
}

func (w *lockedWriter) Write(p []byte) (int, error) {
	w.mu.Lock()
	defer w.mu.Unlock()
	return w.b.Write(p)
}

// memBuf is the buffer of an embedding program that hands every document to Lint in the same
// backing array (APIMem); it lives as long as the worker process.
var memBuf []byte

// curChooser is the choice source of the run in progress (nil: canonical run). sync.Map.Range of
// the code under test draws its visiting order from it, lazily: the unchanged tree has no sync.Map,
// so its choice vectors are what they were.
var curChooser *Chooser

func init() {
	simsync.MapRangeMode = func() uint32 {
		if curChooser == nil || kern.RaceLane {
			return 0
		}
		return uint32(curChooser.Choose("maporder.sync.Map.Range", MapModes))
	}
}

// RunLint executes actionlint on the world under the simulator.
func RunLint(w *World, c *Chooser, o RunOpts) *LintResult {
	res := &LintResult{}
	curChooser = nil
	if !o.Canonical {
		curChooser = c
	}
	defer func() { curChooser = nil }()
	var src kern.Source = c
	if o.Canonical || c == nil {
		src = kern.Zero{}
		simrt.ResetModes()
	} else {
		for _, m := range ApplyMapOrder(c) {
			for i := 0; i < len(m); i++ {
				res.ModeSig = (res.ModeSig ^ uint64(m[i])) * 1099511628211
			}
			res.ModeSig = (res.ModeSig ^ 0xff) * 1099511628211
		}
	}
	cfg := kern.Config{Src: src, Disk: w.Disk, Cwd: w.Cwd, CPUs: w.CPUs, GoMaxProcs: w.GoMaxProcs, Tools: w.Tools, Faults: w.Faults,
		MaxSteps: o.MaxSteps, KeepTrace: o.KeepTrace, NoPreempt: o.Canonical || c == nil}
	if o.EpochOffset != 0 {
		cfg.Epoch = time.Unix(1700000000+o.EpochOffset, 0)
	}
	rep := o.Repeat
	if rep < 1 {
		rep = 1
	}
	simrt.ResetChannels()
	if t, ok := w.Tools.(*Tools); ok && t != nil {
		t.busySeen = false
		t.floodSeen = nil
		t.gone = o.ToolMoves == 1
	}
	res.K = kern.Run(cfg, func() {
		var shared *sharedLinter
		if o.ReuseLinter {
			shared = &sharedLinter{}
		}
		if shared != nil && w.API == APIMain && o.PriorArgs != nil {
			pw := *w
			pw.Args = o.PriorArgs
			lintOnce(&pw, &LintResult{}, shared)
		}
		if shared != nil {
			shared.failOut = o.PriorOutFail
		}
		if shared != nil && w.API != APIMain && o.PriorRepo != "" {
			pw := *w
			pw.API, pw.Files = APIRepo, []string{o.PriorRepo}
			lintOnce(&pw, &LintResult{}, shared)
		}
		if shared != nil && w.API != APIMain && o.PriorFile != "" {
			pw := *w
			pw.API, pw.Files = APIFile, []string{o.PriorFile}
			hidden := o.PriorHideDir != "" && w.Disk.Dirs[o.PriorHideDir]
			if hidden {
				delete(w.Disk.Dirs, o.PriorHideDir)
			}
			lintOnce(&pw, &LintResult{}, shared)
			if hidden {
				w.Disk.Dirs[o.PriorHideDir] = true
			}
		}
		if shared != nil {
			shared.failOut = 0
		}
		if t, ok := w.Tools.(*Tools); ok && t != nil && o.ToolMoves == 2 {
			t.gone = true
		}
		if w.TwoClients && w.API == APIFiles && shared == nil && len(w.Files) >= 2 {
			wa, wb := *w, *w
			h := len(w.Files) / 2
			wa.Files, wb.Files = w.Files[:h], w.Files[h:]
			resB := &LintResult{}
			var done, created simsync.WaitGroup
			done.Add(1)
			created.Add(1)
			// the second Linter is created while the first client waits (creating two Linters at the
			// same time is no part of any property); from then on the two calls overlap
			wb.afterNew = func() { created.Done() }
			wa.afterNew = func() {
				kern.Go("client2", func() {
					defer done.Done()
					lintOnce(&wb, resB, nil)
				})
				created.Wait()
			}
			lintOnce(&wa, res, nil)
			done.Wait()
			res.Errs = append(res.Errs, resB.Errs...)
			res.Stdout += resB.Stdout
			res.Stderr += resB.Stderr
			if res.Fatal == "" && resB.Fatal != "" {
				res.Fatal, res.Exit = resB.Fatal, resB.Exit
			} else if res.Exit == 0 {
				res.Exit = resB.Exit
			}
			rep = 0
		}
		for i := 0; i < rep; i++ {
			lintOnce(w, res, shared)
		}
		if o.After != nil {
			o.After()
		}
	})
	hits, multi := simrt.Counters(len(Sites.Sites))
	for i := range hits {
		if hits[i] > 0 {
			res.SitesHit++
		}
		if multi[i] > 0 {
			res.SitesMulti++
			SiteExercise[i]++
		}
	}
	return res
}

// sharedLinter keeps one Linter (and its output buffers) across repeated executions.
type sharedLinter struct {
	cmd       *actionlint.Command
	l         *actionlint.Linter
	out, errb bytes.Buffer
	err       error
	failOut   int // > 0: Write fails once failOut-1 bytes have been written in this call
}

// failingWriter accepts room bytes and fails from then on (a closed pipe, a full disk).
type failingWriter struct {
	b    *bytes.Buffer
	room int
}

func (w *failingWriter) Write(p []byte) (int, error) {
	if len(p) <= w.room {
		w.room -= len(p)
		return w.b.Write(p)
	}
	n := w.room
	w.b.Write(p[:n])
	w.room = 0
	return n, errors.New("write |1: broken pipe")
}

// failingLogWriter is a log writer (goroutine-safe like os.Stderr) that accepts room bytes and
// fails from then on, writing nothing more. Every failed write passes through the kernel (with no
// lock held), so a caller that retries for ever runs into the step bound instead of spinning
// outside the simulation.
type failingLogWriter struct {
	mu     sync.Mutex
	b      *bytes.Buffer
	room   int
	failed *int
}

func (w *failingLogWriter) Write(p []byte) (int, error) {
	w.mu.Lock()
	if len(p) <= w.room {
		w.room -= len(p)
		n, err := w.b.Write(p)
		w.mu.Unlock()
		return n, err
	}
	n := w.room
	w.b.Write(p[:n])
	w.room = 0
	*w.failed++
	w.mu.Unlock()
	if kern.Active() && !kern.Aborting() {
		kern.Call(kern.Req{Op: kern.OpYield})
	}
	return n, errors.New("write /dev/stderr: no space left on device")
}

// sharedOut is the output writer of a shared Linter: a buffer that can be made to fail.
type sharedOut struct{ s *sharedLinter }

func (w sharedOut) Write(p []byte) (int, error) {
	if f := w.s.failOut; f > 0 {
		room := f - 1 - w.s.out.Len()
		if room < len(p) {
			if room > 0 {
				w.s.out.Write(p[:room])
			} else {
				room = 0
			}
			return room, errors.New("write |1: broken pipe")
		}
	}
	return w.s.out.Write(p)
}

func lintOnce(w *World, res *LintResult, shared *sharedLinter) {
	var out, errb bytes.Buffer
	res.Errs, res.Fatal = nil, ""
	switch w.API {
	case APIMain:
		var in io.Reader = strings.NewReader(w.Stdin)
		if w.StdinR != nil {
			in = w.StdinR
		}
		cmd := &actionlint.Command{}
		if shared != nil {
			// one Command object for several Main calls (an embedding program)
			if shared.cmd == nil {
				shared.cmd = cmd
			}
			cmd = shared.cmd
		}
		cmd.Stdin, cmd.Stdout, cmd.Stderr = in, &out, &lockedWriter{b: &errb}
		if w.StdoutFailAt > 0 {
			cmd.Stdout = &failingWriter{b: &out, room: w.StdoutFailAt - 1}
		}
		if w.LogFailAt > 0 && shared == nil {
			cmd.Stderr = &failingLogWriter{b: &errb, room: w.LogFailAt - 1, failed: &res.LogWriteFailures}
		}
		res.Exit = cmd.Main(append([]string{"actionlint"}, w.Args...))
	default:
		opts := &actionlint.LinterOptions{
			Color:          actionlint.ColorOptionKindNever,
			Oneline:        w.Opts.Oneline,
			Format:         w.Opts.Format,
			IgnorePatterns: w.Opts.Ignore,
			Shellcheck:     w.Opts.Shellcheck,
			Pyflakes:       w.Opts.Pyflakes,
			ConfigFile:     w.Opts.ConfigFile,
			Verbose:        w.Opts.Verbose,
			Debug:          w.Opts.Debug,
			WorkingDir:     w.Opts.WorkingDir,
			LogWriter:      &lockedWriter{b: &errb},
		}
		if hook := w.Opts.RulesHook; hook != "" {
			opts.OnRulesCreated = func(rules []actionlint.Rule) []actionlint.Rule {
				var tools, rest []actionlint.Rule
				for _, r := range rules {
					if r.Name() == "shellcheck" || r.Name() == "pyflakes" {
						tools = append(tools, r)
					} else {
						rest = append(rest, r)
					}
				}
				if hook == "tools-only" {
					return tools
				}
				return append(tools, rest...)
			}
		}
		var l *actionlint.Linter
		var err error
		if shared != nil {
			if shared.l == nil && shared.err == nil {
				opts.LogWriter = &lockedWriter{b: &shared.errb}
				shared.l, shared.err = actionlint.NewLinter(sharedOut{shared}, opts)
			}
			l, err = shared.l, shared.err
			shared.out.Reset()
			shared.errb.Reset()
		} else {
			var ow io.Writer = &out
			if w.StdoutFailAt > 0 {
				ow = &failingWriter{b: &out, room: w.StdoutFailAt - 1}
			}
			if w.LogFailAt > 0 {
				opts.LogWriter = &failingLogWriter{b: &errb, room: w.LogFailAt - 1, failed: &res.LogWriteFailures}
			}
			l, err = actionlint.NewLinter(ow, opts)
			if w.afterNew != nil {
				w.afterNew()
			}
		}
		res.Linter = l
		var errs []*actionlint.Error
		if err == nil {
			switch w.API {
			case APIFiles:
				errs, err = l.LintFiles(w.Files, nil)
			case APIFile:
				errs, err = l.LintFile(w.Files[0], nil)
			case APIRepo:
				d := ""
				if len(w.Files) > 0 {
					d = w.Files[0]
				}
				errs, err = l.LintRepository(d)
			case APIMem:
				for _, f := range w.Files {
					abs := f
					if !strings.HasPrefix(abs, "/") {
						abs = kern.CleanPath(w.Cwd + "/" + f)
					}
					data, ok := w.Disk.Files[abs]
					if !ok {
						err = fmt.Errorf("harness: %s is not on the virtual disk", abs)
						break
					}
					if w.MemPrior {
						// the same bytes with the first line moved to the end: same length, other line starts
						rot := append([]byte{}, data...)
						if i := bytes.IndexByte(data, '\n'); i >= 0 && i+1 < len(data) {
							rot = append(append([]byte{}, data[i+1:]...), data[:i+1]...)
						}
						memBuf = append(memBuf[:0], rot...)
						if pl, perr := actionlint.NewLinter(io.Discard, opts); perr == nil {
							pl.Lint(f, memBuf, nil)
						}
					}
					memBuf = append(memBuf[:0], data...)
					var es []*actionlint.Error
					es, err = l.Lint(f, memBuf, nil)
					errs = append(errs, es...)
					if err != nil {
						break
					}
				}
			default:
				panic("harness: unknown API " + string(w.API))
			}
		}
		for _, e := range errs {
			res.Errs = append(res.Errs, ErrRec{File: e.Filepath, Line: e.Line, Col: e.Column, Kind: e.Kind, Msg: e.Message})
		}
		switch {
		case err != nil:
			res.Fatal = err.Error()
			res.Exit = 3
		case len(errs) > 0:
			res.Exit = 1
		default:
			res.Exit = 0
		}
	}
	res.Stdout, res.Stderr = out.String(), errb.String()
	if shared != nil && w.API != APIMain {
		res.Stdout, res.Stderr = shared.out.String(), shared.errb.String()
	}
}

// WorldJSON is the materialised form of a world for replay files.
type WorldJSON struct {
	Cwd        string            `json:"cwd"`
	CPUs       int               `json:"cpus"`
	GoMaxProcs int               `json:"gomaxprocs,omitempty"`
	API        API               `json:"api"`
	Args       []string          `json:"args,omitempty"`
	Files      []string          `json:"files,omitempty"`
	Opts       Options           `json:"opts"`
	Stdin      string            `json:"stdin,omitempty"`
	StdoutFail int               `json:"stdout_fails_after_bytes_plus_one,omitempty"`
	LogFail    int               `json:"log_writer_fails_after_bytes_plus_one,omitempty"`
	Faults     []kern.Fault      `json:"faults,omitempty"`
	Dirs       []string          `json:"dirs,omitempty"`
	Disk       map[string]string `json:"disk"`
	Links      map[string]string `json:"symlinks,omitempty"`
	Pipes      []string          `json:"named_pipes,omitempty"`
	Note       string            `json:"note,omitempty"`
}

// Materialise renders the world for a replay file or an evidence sample.
func (w *World) Materialise() *WorldJSON {
	j := &WorldJSON{Cwd: w.Cwd, CPUs: w.CPUs, GoMaxProcs: w.GoMaxProcs, API: w.API, Args: w.Args, Files: w.Files, Opts: w.Opts, Stdin: w.Stdin, StdoutFail: w.StdoutFailAt, LogFail: w.LogFailAt,
		Faults: w.Faults, Disk: map[string]string{}, Note: w.Note}
	for p, c := range w.Disk.Files {
		j.Disk[p] = string(c)
	}
	j.Pipes = sortedKeys(w.Disk.Pipes)
	if len(w.Disk.Links) > 0 {
		j.Links = map[string]string{}
		for p, t := range w.Disk.Links {
			j.Links[p] = t
		}
	}
	// directories that contain nothing (others are implied by the files)
	for d := range w.Disk.Dirs {
		implied := false
		pre := d + "/"
		if d == "/" {
			implied = true
		}
		for p := range w.Disk.Files {
			if strings.HasPrefix(p, pre) {
				implied = true
				break
			}
		}
		if !implied {
			for o := range w.Disk.Dirs {
				if strings.HasPrefix(o, pre) {
					implied = true
					break
				}
			}
		}
		if !implied {
			j.Dirs = append(j.Dirs, d)
		}
	}
	sort.Strings(j.Dirs)
	return j
}

// Hash returns a digest of the world (disk, arguments, options).
func (w *World) Hash() uint64 {
	h := fnv.New64a()
	for _, p := range w.Disk.SortedFiles() {
		h.Write([]byte(p))
		h.Write([]byte{0})
		h.Write(w.Disk.Files[p])
		h.Write([]byte{1})
	}
	for _, p := range sortedKeys(w.Disk.Pipes) {
		fmt.Fprintf(h, "P%s|", p)
	}
	for _, p := range sortedKeys(w.Disk.Links) {
		fmt.Fprintf(h, "L%s>%s|", p, w.Disk.Links[p])
	}
	fmt.Fprintf(h, "|%s|%d|%d|%s|%q|%q|%+v|%q|%d", w.Cwd, w.CPUs, w.GoMaxProcs, w.API, w.Args, w.Files, w.Opts, w.Stdin, w.StdoutFailAt)
	if w.LogFailAt > 0 {
		fmt.Fprintf(h, "|log%d", w.LogFailAt)
	}
	for _, f := range w.Faults {
		fmt.Fprintf(h, "|%+v", f)
	}
	return h.Sum64()
}

// FormatErrs renders diagnostics one per line.
func FormatErrs(es []ErrRec) string {
	var b strings.Builder
	for _, e := range es {
		b.WriteString(e.String())
		b.WriteByte('\n')
	}
	return b.String()
}
