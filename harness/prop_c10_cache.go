package harness

import (
	"fmt"
	"sort"
	"strings"
	"time"

	"github.com/anishathalye/porcupine"
	"github.com/rhysd/actionlint"

	"verifsim/sim/kern"
	"verifsim/sim/simrt"
	"verifsim/sim/simsync"
)

// C10, lane "cache": the two per-repository caches are a concurrent API that
// the file goroutines share. Simulated client tasks issue FindMetadata (and,
// for reusable workflows, WriteWorkflowCallEvent) operations; every invoke and
// return is stamped with the kernel's global event sequence number; the
// history is checked with porcupine against the sequential cache model
//
//	the first completed lookup of a key yields (value, cached=false) or the error;
//	every later lookup yields (the same value-or-nil, cached=true, no error).
//
// The property speaks about diagnostics, not cache internals: a non-linearizable
// history is a violation only when it is observable - the key is a defective
// callee, whose error / uncached result makes the caller report the callee's
// defects (twice, or never). A double miss on a well-formed callee is a probe.

type cacheIn struct {
	Op   string // "action", "workflow", "write"
	Spec string
}

type cacheOut struct {
	Nil    bool
	Cached bool // actions only
	Err    string
}

type cacheState struct {
	Filled bool
	Nil    bool
}

func cacheModel() porcupine.Model {
	return porcupine.Model{
		Partition: func(history []porcupine.Operation) [][]porcupine.Operation {
			m := map[string][]porcupine.Operation{}
			for _, op := range history {
				in := op.Input.(cacheIn)
				k := in.Op[:1] + ":" + in.Spec
				if in.Op == "write" {
					k = "w:" + in.Spec
				}
				m[k] = append(m[k], op)
			}
			keys := make([]string, 0, len(m))
			for k := range m {
				keys = append(keys, k)
			}
			sort.Strings(keys)
			out := make([][]porcupine.Operation, 0, len(m))
			for _, k := range keys {
				out = append(out, m[k])
			}
			return out
		},
		Init: func() interface{} { return cacheState{} },
		Step: func(state, input, output interface{}) (bool, interface{}) {
			st := state.(cacheState)
			in := input.(cacheIn)
			out := output.(cacheOut)
			switch in.Op {
			case "write":
				if !st.Filled {
					return true, cacheState{Filled: true, Nil: false}
				}
				return true, st
			case "action":
				if !st.Filled {
					if out.Cached {
						return false, st
					}
					return true, cacheState{Filled: true, Nil: out.Nil}
				}
				return out.Cached && out.Err == "" && out.Nil == st.Nil, st
			default: // workflow
				if !st.Filled {
					return true, cacheState{Filled: true, Nil: out.Nil}
				}
				return out.Err == "" && out.Nil == st.Nil, st
			}
		},
		Equal: func(a, b interface{}) bool { return a.(cacheState) == b.(cacheState) },
		DescribeOperation: func(input, output interface{}) string {
			return fmt.Sprintf("%+v -> %+v", input, output)
		},
	}
}

var cacheActionSpecs = []string{"./act-ok", "./act-bad-yaml", "./act-bad-noname", "./act-does-not-exist", "./act-comp"}
var cacheWorkflowSpecs = []string{"./.github/workflows/reuse-typed.yml", "./.github/workflows/reuse-badyaml.yml", "./.github/workflows/reuse-does-not-exist.yml", "./.github/workflows/reuse-nocall.yml"}

func defectiveSpec(spec string) bool {
	return strings.Contains(spec, "bad") || strings.Contains(spec, "does-not-exist") || strings.Contains(spec, "nocall")
}

type cacheOp struct {
	in   cacheIn
	out  cacheOut
	call int
	ret  int
	task int
}

func c10Cache(c *Chooser, env *Env) *Outcome {
	o := &Outcome{}
	disk := kern.NewDisk()
	root := "/w/app"
	disk.MkdirAll(root + "/.git")
	disk.MkdirAll(root + "/.github/workflows")
	InstallAssets(func(p, ct string) { disk.Put(p, []byte(ct)) }, root, []string{"act-ok", "act-comp", "act-bad-yaml", "act-bad-noname", "wf-typed", "wf-bad-yaml", "wf-bad-nocall"})
	w := &World{Disk: disk, Cwd: root, CPUs: 4, Note: "C10 cache clients"}
	o.World = w
	nclients := 2 + c.Int("world.clients", 3)
	type plan struct{ ops []cacheIn }
	plans := make([]plan, nclients)
	for i := range plans {
		n := 1 + c.Int("world.nops", 3)
		for j := 0; j < n; j++ {
			switch c.Int("world.optype", 5) {
			case 0, 1:
				plans[i].ops = append(plans[i].ops, cacheIn{"action", cacheActionSpecs[c.Int("world.aspec", 3)]}) // few keys: contention
			case 2, 3:
				plans[i].ops = append(plans[i].ops, cacheIn{"workflow", cacheWorkflowSpecs[c.Int("world.wspec", 3)]})
			case 4:
				plans[i].ops = append(plans[i].ops, cacheIn{"write", cacheWorkflowSpecs[0]})
			}
		}
	}
	var results [][]cacheOut
	ApplyMapOrder(c)
	cfg := kern.Config{Src: c, Disk: disk, Cwd: root, CPUs: 4, KeepTrace: env.KeepTrace}
	var setupErr string
	k := kern.Run(cfg, func() {
		proj, err := actionlint.NewProject(root)
		if err != nil {
			setupErr = err.Error()
			return
		}
		ac := actionlint.NewLocalActionsCache(proj, nil)
		wc := actionlint.NewLocalReusableWorkflowCache(proj, root, nil)
		// the AST of the typed reusable workflow, for WriteWorkflowCallEvent
		var event *actionlint.WorkflowCallEvent
		if wf, _ := actionlint.Parse(disk.Files[root+"/.github/workflows/reuse-typed.yml"]); wf != nil {
			for _, e := range wf.On {
				if ce, ok := e.(*actionlint.WorkflowCallEvent); ok {
					event = ce
				}
			}
		}
		results = make([][]cacheOut, nclients)
		var wg simsync.WaitGroup
		for i := 0; i < nclients; i++ {
			i := i
			results[i] = make([]cacheOut, len(plans[i].ops))
			wg.Add(1)
			simrt.Go(fmt.Sprintf("client%d", i), func() {
				defer wg.Done()
				for j, op := range plans[i].ops {
					simrt.Note("call", fmt.Sprintf("%d %d", i, j))
					var out cacheOut
					switch op.Op {
					case "action":
						m, cached, err := ac.FindMetadata(op.Spec)
						out = cacheOut{Nil: m == nil, Cached: cached}
						if err != nil {
							out.Err = err.Error()
						}
					case "workflow":
						m, err := wc.FindMetadata(op.Spec)
						out = cacheOut{Nil: m == nil}
						if err != nil {
							out.Err = err.Error()
						}
					case "write":
						if event != nil {
							wc.WriteWorkflowCallEvent(".github/workflows/reuse-typed.yml", event)
						}
					}
					results[i][j] = out
					simrt.Note("ret", fmt.Sprintf("%d %d", i, j))
				}
			})
		}
		wg.Wait()
	})
	o.addRun(k)
	if env.KeepTrace {
		o.Traces = append(o.Traces, k.Trace)
	}
	o.Nontrivial = k.MaxRunnable >= 2
	o.Sig = k.TraceHash
	if v := runFailure("C10", k); v != nil {
		o.V = v
		return o
	}
	if setupErr != "" {
		o.probe("cache_setup_error", 1)
		return o
	}
	// history -> porcupine operations
	calls := map[string]int{}
	rets := map[string]int{}
	for _, h := range k.History {
		switch h.Name {
		case "call":
			calls[h.Detail] = h.Seq
		case "ret":
			rets[h.Detail] = h.Seq
		}
	}
	var ops []porcupine.Operation
	var flat []cacheOp
	for i := range plans {
		for j, in := range plans[i].ops {
			key := fmt.Sprintf("%d %d", i, j)
			cs, ok1 := calls[key]
			rs, ok2 := rets[key]
			if !ok1 || !ok2 {
				continue
			}
			ops = append(ops, porcupine.Operation{ClientId: i, Input: in, Call: int64(cs), Output: results[i][j], Return: int64(rs)})
			flat = append(flat, cacheOp{in, results[i][j], cs, rs, i})
		}
	}
	o.Sample = map[string]any{"clients": nclients, "operations": len(ops), "history": describeCacheOps(flat), "kernel_steps": k.Steps}
	o.probe("cache_histories_checked", 1)
	o.probe("cache_operations", len(ops))
	model := cacheModel()
	for _, part := range model.Partition(ops) {
		res := porcupine.CheckOperationsTimeout(porcupine.Model{Init: model.Init, Step: model.Step, Equal: model.Equal}, part, 10*time.Second)
		in := part[0].Input.(cacheIn)
		switch res {
		case porcupine.Unknown:
			o.probe("porcupine_unknown", 1)
		case porcupine.Illegal:
			spec := in.Spec
			if !defectiveSpec(spec) {
				o.probe("double_miss_on_wellformed_callee", 1)
				continue
			}
			var mine []cacheOp
			for _, f := range flat {
				if f.in.Spec == spec && (f.in.Op == in.Op || in.Op == "write" || f.in.Op == "write") {
					mine = append(mine, f)
				}
			}
			o.V = &Violation{Oracle: "cache-linearizable", Class: "cache-history-illegal:" + in.Op,
				Message: fmt.Sprintf("the history of concurrent lookups of the defective callee %q is not linearizable against the sequential cache (first lookup reports, later ones are cached and silent): its defect would be reported twice or never.\n%s", spec, describeCacheOps(mine))}
			return o
		}
	}
	return o
}

func describeCacheOps(ops []cacheOp) string {
	sort.Slice(ops, func(i, j int) bool { return ops[i].call < ops[j].call })
	var b strings.Builder
	for _, f := range ops {
		fmt.Fprintf(&b, "    client %d  [%d,%d]  %s(%s) -> nil=%v cached=%v err=%q\n", f.task, f.call, f.ret, f.in.Op, f.in.Spec, f.out.Nil, f.out.Cached, f.out.Err)
	}
	return b.String()
}
