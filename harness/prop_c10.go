package harness

import (
	"encoding/json"
	"fmt"
	"path"
	"regexp"
	"sort"
	"strings"

	"github.com/rhysd/actionlint"
	"gopkg.in/yaml.v3"

	"verifsim/sim/kern"
)

// C10 - multi-file runs: per-file results are isolated and race-free.
//
// Lanes (env.Variant):
//
//	""          well-formed callees: isolation (multi == alone), attribution, immutability of
//	            package tables and repository configs, liveness
//	defective   defective / missing callees: everything else as in isolation, each callee defect
//	            reported exactly once per run and repository
//	faults      persistent read errors on argument and callee files: fatal iff an argument is
//	            unreadable; otherwise isolation against solo runs under the same faults
//	cache       concurrent clients on the two caches; histories checked with porcupine (prop_c10_cache.go)

type c10 struct{}

func init() { Register(c10{}) }

func (c10) ID() string { return "C10" }

func (c10) Eval(c *Chooser, env *Env) *Outcome {
	switch env.Variant {
	case "defective":
		return c10Isolation(c, env, true, false)
	case "faults":
		return c10Isolation(c, env, false, true)
	case "cache":
		return c10Cache(c, env)
	case "racedemo":
		return c10RaceDemo(c, env)
	}
	return c10Isolation(c, env, false, false)
}

type aloneKey struct {
	disk   uint64
	cwd    string
	file   string
	faults string
}

var c10Alone = map[aloneKey]*LintResult{}

func diskHash(w *World) uint64 {
	w2 := *w
	w2.Files, w2.Args, w2.CPUs = nil, nil, 0
	return w2.Hash()
}

func c10Isolation(c *Chooser, env *Env, defective, faults bool) *Outcome {
	o := &Outcome{}
	opts := GenOpts{Ties: true, Clone: true, GenIface: true, Symlinks: true, DirLinks: true, Corpus: true, Loose: true, SelfArg: true, PathConfigs: true, MaxRepos: 3, MaxFiles: 3, Defective: defective, Projects: defective}
	mw := GenMulti(c, opts)
	w := mw.World
	o.World = w
	argSet := map[string]bool{}
	for _, a := range mw.AbsArgs {
		argSet[a] = true
	}
	faultDesc := ""
	if faults {
		// persistent read errors on argument files and on files the arguments may call
		var callees []string
		for _, p := range w.Disk.SortedFiles() {
			if strings.HasSuffix(p, "/action.yml") || strings.HasSuffix(p, "/action.yaml") || strings.Contains(p, "/.github/workflows/reuse-") {
				callees = append(callees, p)
			}
		}
		n := 1 + c.Int("fault.n", 2)
		for i := 0; i < n; i++ {
			kind := []string{kern.FReadEIO, kern.FReadEACCES, kern.FReadENOENT}[c.Int("fault.kind", 3)]
			var target string
			if len(callees) > 0 && c.Weighted("fault.callee", 2, 3) {
				target = callees[c.Int("fault.calleesel", len(callees))]
			} else {
				target = mw.AbsArgs[c.Int("fault.argsel", len(mw.AbsArgs))]
			}
			w.Faults = append(w.Faults, kern.Fault{Kind: kind, Path: target})
			faultDesc += kind + "@" + target + ";"
		}
	}
	if !defective && !faults && len(mw.Repos) > 0 && mw.Repos[0].Config != "" && c.Weighted("world.configfileopt", 1, 8) {
		// an explicitly given configuration file applies to every file of the run, whatever repository it is in
		w.Opts.ConfigFile = mw.Repos[0].Root + "/.github/actionlint.yaml"
		if _, ok := w.Disk.Files[w.Opts.ConfigFile]; !ok {
			w.Opts.ConfigFile = mw.Repos[0].Root + "/.github/actionlint.yml"
		}
		o.probe("explicit_config_file", 1)
	}
	if !defective && !faults {
		// -ignore options (any number of them, as a user passes them): they apply to every file of
		// the run alike, next to the per-repository `paths` ignore patterns
		if n := []int{0, 0, 0, 0, 1, 2, 3, 5, 6, 7}[c.Int("world.nignore", 10)]; n > 0 {
			pats := []string{"never-matches-anything-xyz", "is unknown", "potentially untrusted", "SC2086", "not defined", `label ".+" is unknown`, "shellcheck reported", "^property "}
			for i := 0; i < n; i++ {
				w.Opts.Ignore = append(w.Opts.Ignore, pats[c.Int("world.ignorepat", len(pats))])
			}
			o.probe("ignore_options", 1)
			if n >= 3 && n != 4 {
				o.probe("ignore_options_3_or_more", 1)
			}
		}
	}
	if !faults && c.Weighted("world.tools", 1, 4) {
		// the shellcheck / pyflakes integrations are on (working installations): file workers and
		// tool processes then compete for CPUs-many slots
		w.Tools = &Tools{}
		w.Opts.Shellcheck, w.Opts.Pyflakes = "shellcheck", "pyflakes"
		o.probe("tools_enabled", 1)
	}
	ApplyLogLevel(c, w)
	switch c.Int("world.outmode", 6) {
	case 1:
		w.Opts.Oneline = true
	case 2:
		w.Opts.Format = "{{json .}}"
	case 3:
		w.Opts.Format = "{{range $ := .}}{{$.Filepath}}:{{$.Line}}:{{$.Column}}: {{$.Message}} [{{$.Kind}}]\n{{end}}"
	case 4:
		// two output options at once: the template wins, and it has every field to print
		w.Opts.Oneline = true
		w.Opts.Format = "{{json .}}"
	}
	if w.Opts.Format == "" && c.Weighted("world.stdoutfails", 1, 10) {
		// the report of the multi-file run cannot be written from some byte on (a closed pipe): with
		// the default output that is nobody's fatal error, and the diagnostics each file gets - the
		// returned ones - are still those of the file linted alone (with a healthy writer)
		w.StdoutFailAt = 1 + c.Int("world.stdoutfailat", 600)
		o.probe("output_writer_fails_in_multi_run", 1)
	}
	if c.Weighted("world.workingdiropt", 1, 6) {
		// a library caller that passes LinterOptions.WorkingDir while its process runs somewhere
		// else (another repository of the world, or /): arguments are absolute
		w.Opts.WorkingDir = w.Cwd
		alt := []string{"/", mw.Repos[len(mw.Repos)-1].Root, mw.Repos[0].Root + "/.github"}
		w.Cwd = alt[c.Int("world.processcwd", len(alt))]
		w.Disk.MkdirAll(w.Cwd)
		w.Files = append([]string{}, mw.AbsArgs...)
		mw.Files = w.Files
		o.probe("working_dir_option_differs_from_process_cwd", 1)
	}
	dh := diskHash(w)

	var fpBefore, fpAfter map[string]uint64
	if !kern.RaceLane {
		fpBefore = PackageFingerprints()
	}
	ro := RunOpts{KeepTrace: env.KeepTrace}
	if c.Weighted("world.secondcall", 1, 5) {
		// the same invocation as the second call on one Linter instance: "once per run" and
		// isolation hold for every run of a long-lived Linter, not only for its first
		ro.Repeat, ro.ReuseLinter = 2, true
		o.probe("second_call_on_one_linter", 1)
	}
	multi := RunLint(w, c, ro)
	if !kern.RaceLane {
		fpAfter = PackageFingerprints()
	}
	o.addRun(multi.K)
	if env.KeepTrace {
		o.Traces = append(o.Traces, multi.K.Trace)
	}
	o.Nontrivial = multi.K.MaxRunnable >= 2
	o.Sig = w.Hash() ^ multi.K.TraceHash ^ multi.ModeSig
	o.Sample = map[string]any{"files": w.Files, "cwd": w.Cwd, "cpus": w.CPUs, "repos": len(mw.Repos), "groups": mw.Groups, "faults": w.Faults,
		"diagnostics": len(multi.Errs), "fatal": multi.Fatal, "kernel_steps": multi.K.Steps, "tasks": multi.K.Tasks, "max_runnable": multi.K.MaxRunnable,
		"trace_head": head(multi.K.Trace, 12), "builtin_tables_fingerprinted": BuiltinTableNames()}
	if multi.K.MaxRunnable >= 2 {
		o.probe("runs_with_concurrent_file_tasks", 1)
	}
	o.Digest = DigestOf(multi.Stdout, multi.Errs, multi.Fatal != "")
	if v := runFailure("C10", multi.K); v != nil {
		o.V = v
		return o
	}
	if kern.RaceLane {
		// the race lane only needs the concurrent run itself (the worker reads the detector's
		// log after the evaluation); the value oracles are decided by the other lanes
		return o
	}
	// 5. immutability of the built-in tables
	if d := DiffFingerprints(fpBefore, fpAfter); len(d) > 0 {
		o.V = &Violation{Oracle: "tables-immutable", Class: "table-mutated:" + strings.Join(d, "+"),
			Message: "linting modified package-level table(s) of actionlint: " + strings.Join(d, ", ")}
		return o
	}
	// 5b. immutability of the shared repository configurations
	if cfgs, ok := LinterConfigs(multi.Linter); ok {
		o.probe("config_fingerprints_checked", len(cfgs))
		for _, r := range mw.Repos {
			got, seen := cfgs[r.Root]
			if !seen || r.Config == "" {
				continue
			}
			want, err := FreshConfigFingerprint(r.Config)
			if err == nil && got != want {
				o.V = &Violation{Oracle: "config-immutable", Class: "config-mutated",
					Message: fmt.Sprintf("after the run the configuration object of repository %s differs from a fresh parse of its actionlint.yaml: linting modified the shared configuration", r.Root)}
				return o
			}
		}
	} else if multi.Linter != nil {
		o.probe("config_fingerprint_unavailable", 1)
	}
	// 2. attribution
	if v := c10Attribution(o, mw); v != nil {
		o.V = v
		return o
	}
	// fatal outcome
	unreadableArg := false
	for _, f := range w.Faults {
		if argSet[f.Path] {
			unreadableArg = true
		}
	}
	if unreadableArg {
		if multi.Fatal == "" {
			o.V = &Violation{Oracle: "fault-is-fatal", Class: "unreadable-argument-not-fatal",
				Message: "an argument file could not be read (" + faultDesc + ") but the run returned a normal result"}
		}
		return o
	}
	// 1. isolation
	perFile := map[string][]ErrRec{}
	for _, e := range multi.Errs {
		perFile[e.File] = append(perFile[e.File], e)
	}
	type defectCount struct{ perRepo map[string]int }
	expectDefects := map[string]map[string]int{} // message -> repo -> max count in a solo run
	gotDefects := map[string]int{}
	anyAloneFatal := ""
	for i, spelled := range w.Files {
		abs := mw.AbsArgs[i]
		key := aloneKey{dh, w.Cwd + "|" + w.Opts.WorkingDir + "|" + w.Opts.ConfigFile, spelled, faultDesc}
		alone, ok := c10Alone[key]
		if !ok {
			aw := *w
			aw.Files = []string{spelled}
			aw.API = APIFiles
			aw.StdoutFailAt = 0
			alone = RunLint(&aw, nil, RunOpts{Canonical: true})
			o.addRun(alone.K)
			if len(c10Alone) > 20000 {
				c10Alone = map[aloneKey]*LintResult{}
			}
			c10Alone[key] = alone
		}
		if v := runFailure("C10", alone.K); v != nil {
			v.Message = "while linting " + spelled + " alone: " + v.Message
			o.V = v
			return o
		}
		if alone.Fatal != "" {
			anyAloneFatal = spelled + ": " + alone.Fatal
			continue
		}
		if multi.Fatal != "" {
			continue
		}
		// the path printed for this file
		var name string
		if len(alone.Errs) > 0 {
			name = alone.Errs[0].File
		} else {
			base := w.Cwd
			if w.Opts.WorkingDir != "" {
				base = w.Opts.WorkingDir
			}
			name = printedName(spelled, base)
		}
		got := perFile[name]
		want := alone.Errs
		if defective || faults {
			var g2, w2 []ErrRec
			for _, e := range got {
				if reCalleeDefect.MatchString(e.Msg) {
					gotDefects[e.Msg]++
				} else {
					g2 = append(g2, e)
				}
			}
			cnt := map[string]int{}
			for _, e := range want {
				if reCalleeDefect.MatchString(e.Msg) {
					cnt[e.Msg]++
				} else {
					w2 = append(w2, e)
				}
			}
			for m, n := range cnt {
				if expectDefects[m] == nil {
					expectDefects[m] = map[string]int{}
				}
				if n > expectDefects[m][mw.RepoOf[abs]] {
					expectDefects[m][mw.RepoOf[abs]] = n
				}
			}
			got, want = g2, w2
		}
		if !defective && !faults && w.Opts.Format == "{{json .}}" && errsEqual(got, want) {
			// the rendered fields (snippet, end column) of this file's diagnostics, as printed by the
			// multi-file run and by the run of the file alone
			if g, ok1 := jsonEntries(multi.Stdout, name); ok1 {
				if a, ok2 := jsonEntries(alone.Stdout, name); ok2 && g != a {
					o.V = &Violation{Oracle: "isolation", Class: "file-diff:rendered-fields",
						Message: fmt.Sprintf("file %s: the same diagnostics are rendered differently by the multi-file run (%d files) than by the run of the file alone (-format '{{json .}}', oneline=%v).\n  alone:\n    %s\n  in the multi-file run:\n    %s", spelled, len(w.Files), w.Opts.Oneline, a, g)}
					return o
				}
				o.probe("rendered_outputs_compared", 1)
			}
		}
		if !errsEqual(got, want) {
			o.V = &Violation{Oracle: "isolation", Class: "file-diff:" + errDiffKinds(got, want),
				Message: fmt.Sprintf("file %s gets different diagnostics in the multi-file run (%d files, NumCPU=%d) than when linted alone.\n  alone:\n%s  in the multi-file run:\n%s", spelled, len(w.Files), w.CPUs, indentErrs(want), indentErrs(got)),
				Detail:  map[string]any{"arguments": w.Files, "cwd": w.Cwd}}
			return o
		}
	}
	if multi.Fatal != "" {
		if anyAloneFatal == "" {
			o.V = &Violation{Oracle: "isolation", Class: "fatal-only-in-multi",
				Message: "the multi-file run returned a fatal error although every file lints without fatal error alone: " + multi.Fatal}
		}
		return o
	}
	if anyAloneFatal != "" {
		o.V = &Violation{Oracle: "isolation", Class: "fatal-only-alone",
			Message: "a file that fails fatally alone (" + anyAloneFatal + ") did not make the multi-file run fail"}
		return o
	}
	if defective || faults {
		for _, m := range sortedKeys(expectDefects) {
			want := 0
			for _, n := range expectDefects[m] {
				want += n
			}
			if gotDefects[m] != want {
				cls := "callee-defect-missing"
				if gotDefects[m] > want {
					cls = "callee-defect-duplicated"
				} else if consumedByIgnore(mw, m) {
					// the single report went to a call site in a file whose paths-ignore patterns filter it
					cls = "callee-defect-consumed-by-ignored-file"
				}
				o.V = &Violation{Oracle: "defect-once-per-run", Class: cls,
					Message: fmt.Sprintf("a callee's own defect must be reported once per run (and repository): expected %d report(s), got %d, of: %s", want, gotDefects[m], m)}
				return o
			}
		}
		for _, m := range sortedKeys(gotDefects) {
			if _, ok := expectDefects[m]; !ok {
				o.V = &Violation{Oracle: "defect-once-per-run", Class: "callee-defect-spurious",
					Message: "the multi-file run reports a callee defect that no file reports alone: " + m}
				return o
			}
		}
		o.probe("callee_defect_messages_checked", len(expectDefects))
	}
	return o
}

func head(s []string, n int) []string {
	if len(s) > n {
		return s[:n]
	}
	return s
}

// printedName is how LintFiles/LintFile print a path: relative to cwd when possible.
func printedName(spelled, cwd string) string {
	if !strings.HasPrefix(spelled, "/") {
		return spelled
	}
	// filepath.Rel on clean absolute slash paths
	c := strings.Split(strings.Trim(cwd, "/"), "/")
	p := strings.Split(strings.Trim(spelled, "/"), "/")
	if cwd == "/" {
		c = nil
	}
	i := 0
	for i < len(c) && i < len(p) && c[i] == p[i] {
		i++
	}
	out := strings.Repeat("../", len(c)-i) + strings.Join(p[i:], "/")
	if out == "" {
		out = "."
	}
	return out
}

func errsEqual(a, b []ErrRec) bool {
	if len(a) != len(b) {
		return false
	}
	for i := range a {
		if a[i] != b[i] {
			return false
		}
	}
	return true
}

func errDiffKinds(a, b []ErrRec) string {
	cnt := map[ErrRec]int{}
	for _, e := range a {
		cnt[e]++
	}
	for _, e := range b {
		cnt[e]--
	}
	kinds := map[string]bool{}
	for e, n := range cnt {
		if n != 0 {
			kinds[e.Kind] = true
		}
	}
	if len(kinds) == 0 {
		return "order"
	}
	return strings.Join(sortedKeys(kinds), "+")
}

func indentErrs(es []ErrRec) string {
	if len(es) == 0 {
		return "    (none)\n"
	}
	var b strings.Builder
	for _, e := range es {
		b.WriteString("    " + e.String() + "\n")
	}
	return b.String()
}

// c10Attribution resolves the arguments, in argument order, through the
// public Projects API inside the simulator and compares with the reference
// model "nearest ancestor with .github/workflows and .git".
func c10Attribution(o *Outcome, mw *MultiWorld) *Violation {
	var roots []string
	var errs []string
	cfg := kern.Config{Disk: mw.Disk, Cwd: mw.Cwd, CPUs: 1, NoPreempt: true}
	k := kern.Run(cfg, func() {
		ps := actionlint.NewProjects()
		for _, f := range mw.Files {
			p, err := ps.At(f)
			switch {
			case err != nil:
				roots = append(roots, "")
				errs = append(errs, err.Error())
			case p == nil:
				roots = append(roots, "")
			default:
				roots = append(roots, path.Clean(p.RootDir()))
			}
		}
	})
	o.addRun(k)
	if v := runFailure("C10", k); v != nil {
		return v
	}
	if len(errs) > 0 {
		return nil // configuration errors are not generated here; leave to the isolation oracle
	}
	for i, f := range mw.AbsArgs {
		want := mw.RepoOf[f]
		// (a repository reached through a symbolic link to its root is the same repository)
		rGot, _ := mw.Disk.Resolve(roots[i], true)
		rWant, _ := mw.Disk.Resolve(want, true)
		if roots[i] != want && !(roots[i] != "" && want != "" && rGot == rWant) {
			var order []string
			for _, a := range mw.Files[:i+1] {
				order = append(order, a)
			}
			sort.Strings(order[:0])
			return &Violation{Oracle: "attribution", Class: "wrong-repository",
				Message: fmt.Sprintf("file %s is attributed to repository %q but it is contained in %q (arguments resolved before it, in order: %s)", f, roots[i], want, strings.Join(mw.Files[:i], " "))}
		}
	}
	o.probe("attributions_checked", len(mw.AbsArgs))
	return nil
}

// jsonEntries returns the entries of a '{{json .}}' output that belong to one file, re-encoded.
func jsonEntries(out, file string) (string, bool) {
	var arr []map[string]any
	if json.Unmarshal([]byte(out), &arr) != nil {
		return "", false
	}
	var mine []map[string]any
	for _, e := range arr {
		if e["filepath"] == file {
			mine = append(mine, e)
		}
	}
	b, err := json.Marshal(mine)
	return string(b), err == nil
}

// consumedByIgnore reports whether some repository of the world has a
// paths-ignore pattern that matches the message: the once-per-run report may
// then have been emitted for a file where it is filtered out.
func consumedByIgnore(mw *MultiWorld, msg string) bool {
	for _, r := range mw.Repos {
		for _, pats := range configIgnores(r.Config) {
			for _, p := range pats {
				if re, err := regexp.Compile(p); err == nil && re.MatchString(msg) {
					return true
				}
			}
		}
	}
	return false
}

// configIgnores extracts glob -> ignore patterns from an actionlint.yaml text (yaml.v3 directly).
func configIgnores(cfg string) map[string][]string {
	var doc struct {
		Paths map[string]struct {
			Ignore []string `yaml:"ignore"`
		} `yaml:"paths"`
	}
	out := map[string][]string{}
	if cfg == "" || yaml.Unmarshal([]byte(cfg), &doc) != nil {
		return out
	}
	for g, v := range doc.Paths {
		out[g] = v.Ignore
	}
	return out
}

// c10RaceDemo is a fixed world used to validate the race lane itself: three
// files whose diagnostics all sort the same shared table.
func c10RaceDemo(c *Chooser, env *Env) *Outcome {
	o := &Outcome{}
	disk := kern.NewDisk()
	disk.MkdirAll("/w/app/.git")
	var files []string
	for _, n := range []string{"a", "b", "c"} {
		p := "/w/app/.github/workflows/" + n + ".yml"
		disk.Put(p, []byte("on:\n  issues:\n    types: [bogus, nonsense]\njobs:\n  j:\n    runs-on: ubuntu-latest\n    steps:\n      - run: echo\n"))
		files = append(files, p)
	}
	w := &World{Disk: disk, Cwd: "/w/app", CPUs: 4, API: APIFiles, Files: files}
	o.World = w
	r := RunLint(w, c, RunOpts{KeepTrace: env.KeepTrace})
	o.addRun(r.K)
	o.Nontrivial = r.K.MaxRunnable >= 2
	o.Sig = r.K.TraceHash
	if v := runFailure("C10", r.K); v != nil {
		o.V = v
	}
	return o
}
