package harness

import (
	"os"
	"path/filepath"
	"sort"
	"strings"
	"sync"

	"gopkg.in/yaml.v3"
)

// The corpus is read from the repository's testdata at worker start (real
// disk, real os package), so it tracks the working tree. Structure needed by
// reference models (job blocks, line ranges) is obtained with yaml.v3 directly,
// never from actionlint's parser.

// CorpusJob is one job block cut out of a corpus workflow.
type CorpusJob struct {
	ID    string
	Text  string   // the lines of the block, from the key line up to (not including) the next job key
	Needs []string // ids this job needs (as written)
	Lines int
}

// CorpusFile is one workflow of the corpus.
type CorpusFile struct {
	Name   string // e.g. examples/foo.yaml
	Text   string
	Header string      // everything up to and including the "jobs:" line; "" when not split
	Jobs   []CorpusJob // nil when the file could not be split into job blocks
}

// CorpusProject is one directory of testdata/projects.
type CorpusProject struct {
	Name      string
	Files     map[string]string // relative slash path -> content
	Workflows []string          // relative paths under workflows/
	Config    string            // content of actionlint.yaml, if any
}

// Corpus is everything mined from testdata.
type Corpus struct {
	Files    []*CorpusFile
	Split    []*CorpusFile // the files that were split into job blocks
	Projects []*CorpusProject
}

var (
	corpusOnce sync.Once
	corpus     *Corpus
)

// RepoDir is the root of the repository under test.
func RepoDir() string {
	if d := os.Getenv("VERIF_REPO"); d != "" {
		return d
	}
	if Sites.Dir != "" {
		return Sites.Dir
	}
	return "/repo"
}

// LoadCorpus reads the corpus once.
func LoadCorpus() *Corpus {
	corpusOnce.Do(func() {
		c := &Corpus{}
		root := filepath.Join(RepoDir(), "testdata")
		for _, sub := range []string{"examples", "ok", "err"} {
			ents, _ := os.ReadDir(filepath.Join(root, sub))
			for _, e := range ents {
				n := e.Name()
				if e.IsDir() || !(strings.HasSuffix(n, ".yaml") || strings.HasSuffix(n, ".yml")) {
					continue
				}
				b, err := os.ReadFile(filepath.Join(root, sub, n))
				if err != nil || len(b) > 64*1024 {
					continue
				}
				f := &CorpusFile{Name: sub + "/" + n, Text: string(b)}
				splitJobs(f)
				c.Files = append(c.Files, f)
				if len(f.Jobs) > 0 {
					c.Split = append(c.Split, f)
				}
			}
		}
		proot := filepath.Join(root, "projects")
		ents, _ := os.ReadDir(proot)
		for _, e := range ents {
			if !e.IsDir() {
				continue
			}
			p := &CorpusProject{Name: e.Name(), Files: map[string]string{}}
			base := filepath.Join(proot, e.Name())
			filepath.Walk(base, func(path string, info os.FileInfo, err error) error {
				if err != nil || info.IsDir() {
					return nil
				}
				rel, _ := filepath.Rel(base, path)
				rel = filepath.ToSlash(rel)
				b, err := os.ReadFile(path)
				if err != nil {
					return nil
				}
				p.Files[rel] = string(b)
				if strings.HasPrefix(rel, "workflows/") && (strings.HasSuffix(rel, ".yaml") || strings.HasSuffix(rel, ".yml")) {
					p.Workflows = append(p.Workflows, rel)
				}
				if rel == "actionlint.yaml" {
					p.Config = string(b)
				}
				return nil
			})
			sort.Strings(p.Workflows)
			if len(p.Workflows) > 0 {
				c.Projects = append(c.Projects, p)
			}
		}
		corpus = c
	})
	return corpus
}

// splitJobs cuts a workflow into header + job blocks when its layout is the
// plain block style (top-level "jobs:" mapping, job keys at column 3, no
// anchors). Anything else stays unsplit.
func splitJobs(f *CorpusFile) {
	if strings.ContainsAny(f.Text, "&*") && (strings.Contains(f.Text, ": &") || strings.Contains(f.Text, "<<:")) {
		return
	}
	if strings.Contains(f.Text, "\r") || strings.Contains(f.Text, "\t") {
		return
	}
	var doc yaml.Node
	if err := yaml.Unmarshal([]byte(f.Text), &doc); err != nil || doc.Kind != yaml.DocumentNode || len(doc.Content) != 1 {
		return
	}
	top := doc.Content[0]
	if top.Kind != yaml.MappingNode {
		return
	}
	lines := strings.SplitAfter(f.Text, "\n")
	if len(lines) > 0 && lines[len(lines)-1] == "" {
		lines = lines[:len(lines)-1]
	}
	if len(lines) == 0 || !strings.HasSuffix(lines[len(lines)-1], "\n") {
		return
	}
	for i := 0; i+1 < len(top.Content); i += 2 {
		k, v := top.Content[i], top.Content[i+1]
		if k.Value != "jobs" {
			continue
		}
		// "jobs" must be the last top-level key so that blocks run to the end of the file
		if i+2 != len(top.Content) || v.Kind != yaml.MappingNode || v.Style&yaml.FlowStyle != 0 || len(v.Content) == 0 {
			return
		}
		if k.Column != 1 || strings.TrimRight(lines[k.Line-1], " \n") != "jobs:" {
			return
		}
		type blk struct {
			id    string
			start int
			needs []string
		}
		var blks []blk
		seen := map[string]bool{}
		for j := 0; j+1 < len(v.Content); j += 2 {
			jk, jv := v.Content[j], v.Content[j+1]
			if jk.Column != 3 || jk.Kind != yaml.ScalarNode || jk.Style != 0 || jv.Kind != yaml.MappingNode || jv.Style&yaml.FlowStyle != 0 {
				return
			}
			id := jk.Value
			if seen[strings.ToLower(id)] || !strings.HasPrefix(lines[jk.Line-1], "  "+id+":") {
				return
			}
			seen[strings.ToLower(id)] = true
			b := blk{id: id, start: jk.Line}
			for m := 0; m+1 < len(jv.Content); m += 2 {
				if jv.Content[m].Value == "needs" {
					nv := jv.Content[m+1]
					switch nv.Kind {
					case yaml.ScalarNode:
						b.needs = append(b.needs, nv.Value)
					case yaml.SequenceNode:
						for _, x := range nv.Content {
							if x.Kind == yaml.ScalarNode {
								b.needs = append(b.needs, x.Value)
							}
						}
					}
				}
			}
			blks = append(blks, b)
		}
		// comments or blank lines between "jobs:" and the first key belong to the header
		f.Header = strings.Join(lines[:blks[0].start-1], "")
		for n, b := range blks {
			end := len(lines)
			if n+1 < len(blks) {
				end = blks[n+1].start - 1
			}
			txt := strings.Join(lines[b.start-1:end], "")
			f.Jobs = append(f.Jobs, CorpusJob{ID: b.id, Text: txt, Needs: b.needs, Lines: end - (b.start - 1)})
		}
		return
	}
}
